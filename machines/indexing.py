"""C04: channel metadata stays aligned with columns under every indexing expression.

Histories over aliased views: a pool of handles, each pairing a real FCSData (or what
indexing it returned) with a reference-model handle (models/index_ref.py). getitem creates
handles, setitem mutates; after every op EVERY live handle is compared with its model, so a
write through a view must be seen through the parent and siblings exactly as NumPy would."""
import copy

import numpy as np

from machines import Machine, violation, fcsgen
from models import fcs_ref
from models import index_ref as ix
from sim import disk as simdisk
from sim.oplog import OpLog
from sim.shrink import list_reductions

GRAMMAR_COLS = {'absent', 'int', '-int', 'name', 'slice', 'slice/step', 'list/names', 'list/ints', 'list/mixed',
                'tuple/names', 'tuple/ints', 'tuple/mixed', 'list/empty', 'tuple/empty'}
OTHER_COLS = {'ell', 'boollist', 'npmask', 'npint', 'ndarray', 'range', 'nested'}


def K(t, v=None):
    return {'t': t, 'v': v} if v is not None else {'t': t}


def canonical_rows(N):
    ks = [K('int', i) for i in range(-N, N + 1)]
    for a in (None, 1, -2):
        for b in (None, -1, max(N - 1, 0)):
            for c in (None, 2, -1):
                ks.append(K('slice', [a, b, c]))
    ks += [K('list', []), K('list', [0] if N else []), K('list', [N - 1, 0] if N else []),
           K('list', [-1, 1 % max(N, 1), 1 % max(N, 1)] if N else [])]
    ks += [K('mask', [True] * N), K('mask', [i % 2 == 0 for i in range(N)]), K('mask', [False] * N)]
    ks.append(K('ell'))
    # NumPy integers (what np.argmax / np.where hand back) are integers too
    ks += [K('npint', 0), K('npint', -1)]
    return ks


def canonical_cols(D, names):
    if D == 0:
        return [K('absent'), K('int', 0), K('name', 'NOPE'), K('slice', [None, None, None]), K('list', []), K('ell')]
    ks = [K('absent')]
    ks += [K('int', i) for i in range(-D, D + 1)]
    ks += [K('name', n) for n in names] + [K('name', 'NOPE'), K('name', names[0] + ' '), K('name', ' ' + names[-1]),
                                            K('name', names[0].lower()), K('name', '')]
    for a in (None, 1):
        for b in (None, -1):
            for c in (None, 2, -1):
                ks.append(K('slice', [a, b, c]))
    n0, n1 = names[0], names[min(1, D - 1)]
    for t in ('list', 'tuple'):
        ks += [K(t, [0]), K(t, [n1, 0]), K(t, [D - 1, n0, min(1, D - 1)]), K(t, [-1]), K(t, list(names)),
               K(t, [0, 0]), K(t, [n0, 'NOPE']), K(t, [0, D])]
    ks.append(K('list', []))
    ks += [K('ell'), K('boollist', [True] * D), K('boollist', [i % 2 == 0 for i in range(D)]),
           K('npmask', [True] * D), K('npmask', [i % 2 == 1 for i in range(D)]),
           K('npint', D - 1), K('ndarray', [D - 1, 0]), K('range', [0, D, 1])]
    return ks


def rand_rows(rng, N):
    t = rng.wchoice([('int', 3), ('slice', 4), ('list', 2), ('mask', 2), ('ell', 1), ('npint', 1)])
    if t == 'int':
        return K('int', rng.randint(-N - 1, N))
    if t == 'npint':
        return K('npint', rng.randint(-N - 1, N))
    if t == 'slice':
        return K('slice', [rng.choice([None, 0, 1, -2, N]), rng.choice([None, -1, N - 1, 2, N + 3]),
                           rng.choice([None, 1, 2, 3, -1, -2, 0 if rng.chance(0.3) else 1])])
    if t == 'list':
        return K('list', [rng.randint(-N, N - 1) if N else 0 for _ in range(rng.randint(0, 4))])
    if t == 'mask':
        n = N if rng.chance(0.9) else N + 1
        return K('mask', [rng.chance(0.5) for _ in range(n)])
    return K('ell')


def near_name(rng, names):
    """a string that is NOT a channel name of this sample unless it happens to equal one (the model decides):
    real names padded, re-cased, cut or extended"""
    if not names or rng.chance(0.35):
        return rng.choice(['NOPE', '', ' ', '0', '-1'])
    n = rng.choice(list(names))
    return rng.choice([n + ' ', ' ' + n, n.lower(), n.upper(), n[:-1], n + 'x', n.strip(), n.swapcase()])


def rand_cols(rng, D, names):
    t = rng.wchoice([('absent', 4), ('int', 2), ('name', 3), ('slice', 2), ('list', 4), ('tuple', 2), ('ell', 1),
                     ('boollist', 1), ('npmask', 1), ('npint', 1), ('ndarray', 1), ('range', 1)])
    if t == 'absent' or D == 0:
        return K('absent')
    if t == 'int':
        return K('int', rng.randint(-D - 1, D))
    if t == 'name':
        return K('name', rng.choice(list(names)) if rng.chance(0.8) else near_name(rng, names))
    if t == 'slice':
        return K('slice', [rng.choice([None, 0, 1, -1]), rng.choice([None, -1, D, 1]), rng.choice([None, 1, 2, -1])])
    if t in ('list', 'tuple'):
        n = rng.randint(0, D + 1)
        v = []
        for _ in range(n):
            p = rng.randint(-D, D - 1) if rng.chance(0.93) else D
            v.append(names[p] if rng.chance(0.5) and -D <= p < D else p)
        if rng.chance(0.06):
            v.insert(rng.randint(0, len(v)), near_name(rng, names))
        if rng.chance(0.04):
            return K('nested', [v or [0]])            # a list wrapped once too often
        return K(t, v)
    if t in ('boollist', 'npmask'):
        return K(t, [rng.chance(0.5) for _ in range(D if rng.chance(0.9) else D + 1)])
    if t == 'npint':
        return K('npint', rng.randint(-D, D - 1))
    if t == 'ndarray':
        return K('ndarray', [rng.randint(0, D - 1) for _ in range(rng.randint(1, 3))])
    if t == 'range':
        return K('range', [0, rng.randint(1, D), 1])
    return K('ell')


def read_meta(obj):
    """per-element metadata as the real object reports it: list of dicts, one per channel entry"""
    cols = {}
    cols['channels'] = list(obj.channels)
    for a in ix.ATTRS[1:]:
        cols[a] = list(getattr(obj, a)())
    n = len(cols['channels'])
    for a in ix.ATTRS:
        if len(cols[a]) != n:
            raise ValueError('attribute %s has %d entries, channels has %d' % (a, len(cols[a]), n))
    return [{a: (list(cols[a][i]) if a == 'range' and cols[a][i] is not None else cols[a][i]) for a in ix.ATTRS}
            for i in range(n)]


def meta_eq(a, b):
    if len(a) != len(b):
        return False
    for x, y in zip(a, b):
        for k in ix.ATTRS:
            u, v = x[k], y[k]
            if k == 'range' and u is not None and v is not None:
                if [float(t) for t in u] != [float(t) for t in v]:
                    return False
            elif k == 'amplification_type' and u is not None and v is not None:
                if tuple(u) != tuple(v):
                    return False
            elif u != v:
                return False
    return True


def gen_file(rng, N=None, D=None):
    D = D or (rng.randint(1, 5) if rng.chance(0.9) else rng.randint(17, 20))
    N = rng.randint(0, 6) if N is None else N
    names = (['FSC-H', 'SSC-H', 'FL1-H', 'FL2-H', 'Time'] + ['V%d-A' % j for j in range(1, 16)])[:D]
    if D >= 2 and rng.chance(0.25):
        # duplicate-free names that differ only by surrounding blanks or letter case
        a, b = rng.sample(range(D), 2)
        names[b] = rng.choice([names[a] + ' ', ' ' + names[a], names[a].lower(), names[a] + '  ', names[a].swapcase()])
    dt = rng.wchoice([('I', 6), ('F', 2), ('D', 2)])
    spec = fcsgen.gen_spec(rng, names=names, n_params=D, n_events=N, keywords=False, datatype=dt)
    spec['pads'] = []
    if dt == 'I':
        spec['widths'] = [16] * D if rng.chance(0.5) else [rng.choice([8, 16, 32]) for _ in range(D)]
        spec['widths'] = [32] * D if D > 12 else spec['widths']
        spec['ranges'] = [1 << (3 + j) for j in range(D)]            # distinct per channel
        spec['events'] = [[(7 * i + 3 * j + 1) % (1 << (3 + j)) for j in range(D)] for i in range(N)]
    else:
        spec['ranges'] = [100 * (j + 1) for j in range(D)]
        spec['events'] = [[float(10 * i + j) + 0.5 for j in range(D)] for i in range(N)]
    # every attribute distinct per channel, so that any misalignment is observable
    spec['pne'] = ['%d,%s' % (j, '0' if j == 0 else '1') if j else '0,0' for j in range(D)]
    spec['pne'] = ['0,0' if j == 0 else '%d.5,%d' % (j, j) for j in range(D)]
    spec['extra'] = []
    for j in range(D):
        spec['extra'] += [['$P%dV' % (j + 1), str(400 + 10 * j)], ['$P%dG' % (j + 1), str(1.5 + j)],
                          ['$P%dS' % (j + 1), 'label-%d' % j]]
    return spec


class C04Machine(Machine):
    prop = 'C04'
    level = 'exploration'
    rule = ('histories over a pool of aliased handles against a NumPy reference model: (walk1) every canonical (row key, '
            'column key) pair of the grammar on a small loaded sample, exhaustively; (walk2, thorough) every canonical '
            'first key followed by every canonical key on its result; (chain) seeded chains of up to 4 getitem/setitem ops '
            'on any live handle with every live handle re-checked after every op, some passing the key object of an '
            'earlier expression again; distinct = distinct (handle role, row-key '
            'form, column-key form, get/set, chain depth, outcome) tuples')
    real_components = ['FlowCal.io.FCSData.__getitem__/__setitem__/_name_to_index/__array_finalize__ (real)',
                       'NumPy indexing underneath (real)']
    stubbed_components = ['none: the sample is loaded from a generated file on the simulated disk']
    not_modelled = ['no fault dimension: reference-model refinement over seeded operation histories',
                    'keys containing None (np.newaxis) and tuples longer than two']
    assumptions = ['for 1-D row handles that are indexed again only values are compared (the class does not define which '
                   'axis a 1-D sample carries)', 'the initial per-channel metadata is read from the loaded sample (C17 '
                   'decides whether it reflects the file)']

    def plan(self, tier):
        if tier == 'quick':
            return {'runs': 24 + 3000, 'budget_s': 100, 'batch': 12}
        return {'runs': 24 + 2200 + 2000000, 'budget_s': 1500, 'batch': 40}

    N_WALK1 = 24

    def generate(self, rng, tier, index):
        if index < self.N_WALK1:
            shapes = [(4, 3), (3, 2), (1, 1), (5, 4), (0, 2), (2, 5)]
            N, D = shapes[index % len(shapes)]
            spec = gen_file(rng, N=N, D=D)
            return {'arm': 'walk1', 'spec': spec, 'chunk': index // len(shapes), 'nchunks': self.N_WALK1 // len(shapes)}
        if tier == 'thorough' and index < self.N_WALK1 + 2200:
            i = index - self.N_WALK1
            shapes = [(4, 3), (3, 2)]
            N, D = shapes[i % 2]
            spec = gen_file(rng, N=N, D=D)
            return {'arm': 'walk2', 'spec': spec, 'k1': i // 2}
        spec = gen_file(rng)
        D = len(spec['widths'])
        N = len(spec['events'])
        names = spec['names']
        # generator-side shadow of the model: shapes and names of live handles
        base = ix.MHandle(np.zeros((N, D)), [{'channels': n} for n in names], '2d')
        shadow = [base]
        ops = []
        for _ in range(rng.randint(1, 4)):
            hi = rng.randint(0, len(shadow) - 1)
            h = shadow[hi]
            if h.vals.ndim == 2:
                rows = rand_rows(rng, h.vals.shape[0])
                cols = rand_cols(rng, h.vals.shape[1], h.names)
            else:
                rows = rand_rows(rng, h.vals.shape[0])
                cols = K('absent') if rng.chance(0.85) else rand_cols(rng, len(h.names) or 1, h.names or ['x'])
            if rng.chance(0.12):
                ops.append({'op': 'edit_range', 'h': hi, 'col': rng.randint(0, 19), 'end': rng.choice([0, 1]),
                            'value': rng.choice([-7.0, 0.5, 123456.0])})
                continue
            prev_gets = [o for o in ops if o['op'] == 'get' and 'kid' in o]
            if prev_gets and rng.chance(0.15):
                src = rng.choice(prev_gets)
                hj = rng.randint(0, len(shadow) - 1)
                ops.append({'op': 'get', 'h': hj, 'rows': copy.deepcopy(src['rows']), 'cols': copy.deepcopy(src['cols']),
                            'keyref': src['kid']})
                try:
                    r = ix.m_getitem(shadow[hj], src['rows'], src['cols'])
                    if r.role != 'scalar' and r.role != 'other' and np.ndim(r.vals) >= 1:
                        shadow.append(r)
                except Exception:
                    pass
                continue
            if rng.chance(0.3):
                val = rng.choice([{'k': 'scalar', 'v': rng.randint(0, 7)}, {'k': 'iota', 'v': rng.randint(1, 5)},
                                  {'k': 'row', 'v': rng.randint(0, 5)}])
                ops.append({'op': 'set', 'h': hi, 'rows': rows, 'cols': cols, 'val': val})
            else:
                ops.append({'op': 'get', 'h': hi, 'rows': rows, 'cols': cols, 'kid': len(ops)})
                try:
                    r = ix.m_getitem(h, rows, cols)
                    if r.role != 'scalar' and r.role != 'other' and np.ndim(r.vals) >= 1:
                        shadow.append(r)
                except Exception:
                    pass
        return {'arm': 'chain', 'spec': spec, 'ops': ops}

    def summarise(self, case):
        c = copy.deepcopy(case)
        ev = c['spec']['events']
        c['spec']['events'] = ev[:2] + (['... %d rows' % len(ev)] if len(ev) > 2 else [])
        return c

    # ------------------------------------------------------------------
    def expand(self, case):
        """walk arms -> explicit op list (so that replay/minimisation only ever sees op lists)"""
        spec = case['spec']
        N, D = len(spec['events']), len(spec['widths'])
        if case['arm'] == 'chain':
            return case['ops']
        pairs = [(r, c) for r in canonical_rows(N) for c in canonical_cols(D, spec['names'])]
        if case['arm'] == 'walk1':
            sel = pairs[case['chunk']::case['nchunks']]
            ops = []
            for r, c in sel:
                ops.append({'op': 'get', 'h': 0, 'rows': r, 'cols': c, 'drop': True})
            return ops
        # walk2
        r1, c1 = pairs[case['k1'] % len(pairs)]
        base = ix.MHandle(np.zeros((N, D)), [{'channels': n} for n in spec['names']], '2d')
        ops = [{'op': 'get', 'h': 0, 'rows': r1, 'cols': c1}]
        try:
            res = ix.m_getitem(base, r1, c1)
        except Exception:
            return ops
        if res.role in ('scalar', 'other') or np.ndim(res.vals) == 0:
            return ops
        if res.vals.ndim == 2:
            p2 = [(r, c) for r in canonical_rows(res.vals.shape[0]) for c in canonical_cols(res.vals.shape[1], res.names)]
        else:
            p2 = [(r, K('absent')) for r in canonical_rows(res.vals.shape[0])] + \
                 [(K('int', 0), c) for c in canonical_cols(max(1, len(res.names)), res.names or ['x'])[:12]]
        for r, c in p2:
            ops.append({'op': 'get', 'h': 1, 'rows': r, 'cols': c, 'drop': True})
        return ops

    def execute(self, case):
        import FlowCal as F
        log = OpLog()
        out = {'violations': [], 'sigs': set(), 'faults': {}, 'probes': {}, 'evals': 0}
        V = out['violations']
        spec = case['spec']
        b, info = fcs_ref.build(spec)
        dk = simdisk.SimDisk('c04')

        def bump(d, k, n=1):
            d[k] = d.get(k, 0) + n

        try:
            dk.write('f.fcs', b)
            d = F.io.FCSData(dk.materialise('f.fcs'))
        finally:
            dk.teardown()
        base_vals = np.array(d.view(np.ndarray))
        base = ix.MHandle(base_vals, read_meta(d), '2d')
        handles = [(d, base, 0)]
        ops = self.expand(case)
        keys_by_id = {}

        def check_handle(real, mh, where, depth):
            """values always; metadata when the model tracks it"""
            rv = np.asarray(real).view(np.ndarray) if isinstance(real, np.ndarray) else np.asarray(real)
            mv = np.asarray(mh.vals)
            if rv.shape != mv.shape or rv.dtype != mv.dtype or not np.array_equal(rv, mv):
                return ('C04/values', 'shape %s dtype %s vs model shape %s dtype %s%s' % (
                    rv.shape, rv.dtype, mv.shape, mv.dtype,
                    '' if rv.shape != mv.shape else ' values differ: %r vs %r' % (rv.tolist(), mv.tolist())))
            if mh.meta is not None and mh.role in ('2d', '1d-col', '1d-row') and hasattr(real, 'channels'):
                try:
                    rm = read_meta(real)
                except Exception as e:
                    return ('C04/metadata', 'metadata accessors inconsistent: %s: %s' % (type(e).__name__, e))
                if not meta_eq(rm, mh.meta):
                    bad = [a for a in ix.ATTRS if [x[a] for x in rm] != [x[a] for x in mh.meta]]
                    return ('C04/metadata', 'attributes %s not those of the selected columns: got channels %s, expected %s' % (
                        bad, [x['channels'] for x in rm], [x['channels'] for x in mh.meta]))
            return None

        for n, op in enumerate(ops):
            out['evals'] += 1
            real, mh, depth = handles[op['h'] % len(handles)]
            if op['op'] == 'edit_range':
                # caller-side edit of one handle's range entry (a legitimate thing to do with one's own sample): the
                # handle's model follows whatever the handle itself reports afterwards; every OTHER live handle
                # must be unaffected (checked below like after any other op)
                try:
                    rr = real.range()
                    j = op['col'] % max(1, len(rr))
                    if rr and rr[j] is not None:
                        rr[j][op['end']] = op['value']
                    if mh.meta is not None and hasattr(real, 'channels'):
                        now = read_meta(real)
                        if len(now) == len(mh.meta):
                            for a_, b_ in zip(mh.meta, now):
                                a_['range'] = b_['range']
                    bump(out['probes'], 'caller_range_edits')
                    log.add('edit_range', op['h'], op['col'], op['end'], op['value'])
                except Exception as e:
                    log.add('edit_range-refused', type(e).__name__)
                for hi2, (r2, m2, d2) in enumerate(handles):
                    bad = check_handle(r2, m2, 'handle%d' % hi2, d2)
                    if bad:
                        V.append(violation(bad[0] + '-after', '%s|edit_range|handle:%s' % (mh.role, m2.role),
                                           'after the caller edited the range of handle %d, live handle %d: %s' % (
                                               op['h'] % len(handles), hi2, bad[1])))
                        break
                if V:
                    break
                continue
            rows, cols = op['rows'], op['cols']
            rf, cf = ix.form(rows), ix.form(cols)
            # two-part keys on 1-D samples are outside what the property defines (which axis does the second part
            # address?): like the "other forms" they may be refused or must agree with plain indexing on the values
            other = cf in OTHER_COLS or (mh.role != '2d' and cols['t'] != 'absent')
            key = ix.user_key(rows, cols)
            if op.get('keyref') is not None and op['keyref'] in keys_by_id:
                # the caller passes the very object used in an earlier expression (a variable holding the key)
                key = keys_by_id[op['keyref']]
                bump(out['probes'], 'key_object_reused')
            if 'kid' in op:
                keys_by_id[op['kid']] = key
            site0 = '%s|%s|%s|%s|d%d' % (mh.role, rf, cf, op['op'], min(depth, 3))
            if op['op'] == 'get':
                try:
                    mres = ix.m_getitem(mh, rows, cols)
                    mk = 'ok'
                except ix.Refused as e:
                    mres, mk = None, 'refused'
                except Exception as e:
                    mres, mk = None, 'nperr'
                try:
                    rres = real[key]
                    rk = 'ok'
                except Exception as e:
                    rres, rk = None, 'exc:' + type(e).__name__
                log.add('get', op['h'], rows, cols, mk, rk)
                oc = mk + '/' + rk.split(':')[0]
                if mk != 'ok':
                    if rk == 'ok':
                        V.append(violation('C04/accepted-invalid', site0,
                                           'key %r must be refused (%s) but returned %r' % (key, mk, rres)))
                elif rk != 'ok':
                    if not other:
                        V.append(violation('C04/refused-valid', site0, 'key %r refused with %s' % (key, rk)))
                    else:
                        bump(out['probes'], 'other_form_refused')
                else:
                    if mres.role == 'scalar':
                        if isinstance(mres.vals, np.ndarray):
                            # a key containing an Ellipsis: plain array indexing itself yields a 0-d array, not a scalar
                            if np.shape(rres) != () or not (np.asarray(rres) == mres.vals) or \
                                    np.asarray(rres).dtype != mres.vals.dtype:
                                V.append(violation('C04/values', site0, 'cell %r: got %r expected %r' % (key, rres, mres.vals)))
                            bump(out['probes'], 'zero_d_result_as_numpy')
                        elif isinstance(rres, np.ndarray):
                            V.append(violation('C04/scalar', site0, 'single cell came back as %s' % type(rres).__name__))
                        elif not (rres == mres.vals and np.asarray(rres).dtype == np.asarray(mres.vals).dtype):
                            V.append(violation('C04/values', site0, 'cell %r: got %r expected %r' % (key, rres, mres.vals)))
                    else:
                        bad = check_handle(rres, mres, 'result', depth + 1)
                        if bad:
                            V.append(violation(bad[0], site0, 'key %r: %s' % (key, bad[1])))
                        elif other:
                            bump(out['probes'], 'other_form_aligned')
                        if not op.get('drop') and isinstance(rres, np.ndarray) and rres.ndim >= 1 and \
                                hasattr(rres, 'channels') and not bad:
                            handles.append((rres, mres, depth + 1))
                        if mres.role == '1d-row':
                            bump(out['probes'], 'row_handle')
                out['sigs'].add(site0 + '|' + oc)
            else:
                # value to write, shaped by the model's selection
                try:
                    sel = ix.m_getitem(mh, rows, cols)
                    shp = np.shape(sel.vals)
                except Exception:
                    shp = ()
                val = op['val']
                if val['k'] == 'scalar':
                    value = val['v']
                elif val['k'] == 'iota':
                    value = (np.arange(int(np.prod(shp)) if shp else 1) * val['v'] % 7).reshape(shp if shp else (1,))
                    if not shp:
                        value = int(value[0])
                else:
                    value = (np.arange(shp[-1]) + val['v']) % 7 if shp else val['v']
                snap = np.array(mh.vals, copy=True)
                try:
                    ix.m_setitem(mh, rows, cols, value)
                    mk = 'ok'
                except ix.Refused:
                    mk = 'refused'
                except Exception:
                    mk = 'nperr'
                    mh.vals[...] = snap
                try:
                    real[key] = value
                    rk = 'ok'
                except Exception as e:
                    rk = 'exc:' + type(e).__name__
                log.add('set', op['h'], rows, cols, val, mk, rk)
                oc = mk + '/' + rk.split(':')[0]
                if mk != 'ok' and rk == 'ok':
                    V.append(violation('C04/accepted-invalid', site0, 'assignment through %r must be refused (%s)' % (key, mk)))
                    break
                if mk == 'ok' and rk != 'ok':
                    if not other:
                        V.append(violation('C04/refused-valid', site0, 'assignment through %r refused with %s' % (key, rk)))
                    mh.vals[...] = snap        # model follows the refusal
                    # (handles that are copies are unaffected either way)
                out['sigs'].add(site0 + '|' + oc)
                bump(out['probes'], 'writes')
            # every live handle must still agree with its model (aliasing + metadata stability)
            if op['op'] == 'set' or not op.get('drop'):
                for hi, (r2, m2, d2) in enumerate(handles):
                    bad = check_handle(r2, m2, 'handle%d' % hi, d2)
                    if bad:
                        V.append(violation(bad[0] + '-after', site0 + '|handle:' + m2.role,
                                           'after op %d (%s %r) live handle %d: %s' % (n, op['op'], key, hi, bad[1])))
                        break
                if V and V[-1]['clause'].endswith('-after'):
                    break
        out['digest'] = log.digest()
        out['summary'] = {'ops': len(ops), 'violations': len(V)}
        return out

    def shrink_candidates(self, case):
        if case['arm'] != 'chain':
            ops = self.expand(case)
            c = {'arm': 'chain', 'spec': case['spec'], 'ops': [dict(o) for o in ops]}
            yield c
            return
        for ops in list_reductions(case['ops'], 1):
            c = copy.deepcopy(case)
            c['ops'] = ops
            yield c
        for i, op in enumerate(case['ops']):
            if op.get('drop') is None and op['op'] == 'get' and i == len(case['ops']) - 1:
                c = copy.deepcopy(case)
                c['ops'][i]['drop'] = True
                yield c
        for ev in list_reductions(case['spec']['events'], 1):
            c = copy.deepcopy(case)
            c['spec']['events'] = ev
            yield c
