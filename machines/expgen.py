"""Experiment generator for the Excel-UI machines (C10, C11, C15): instruments, bead
rows, cell-sample rows, the FCS files they refer to (synthetic, seeded) and the row
faults the workflow documents."""
import copy

import numpy as np

from models import fcs_ref

LAYOUT_A = ['FSC-H', 'SSC-H', 'FSC-A', 'SSC-A', 'FL1-H', 'FL2-H', 'Time']
INSTRUMENTS = [
    {'ID': 'I1', 'fsc': 'FSC-H', 'ssc': 'SSC-H', 'fl': ['FL1-H', 'FL2-H'], 'time': 'Time', 'layout': LAYOUT_A},
    {'ID': 'I2', 'fsc': 'FSC-A', 'ssc': 'SSC-A', 'fl': ['BL1-A', 'YL2-A'], 'time': 'TIME'},
    {'ID': 'I3', 'fsc': 'FS Lin', 'ssc': 'SS Log', 'fl': ['GFP', 'mCh', 'BFP'], 'time': 'time'},
]
# the same cytometer described through its area scatter signals: same files, other scatter channels
SIBLING = {'ID': 'I1A', 'fsc': 'FSC-A', 'ssc': 'SSC-A', 'fl': ['FL1-H', 'FL2-H'], 'time': 'Time', 'layout': LAYOUT_A}
# a wide panel (more than ten reported histograms per figure)
WIDE = {'ID': 'IW', 'fsc': 'FSC', 'ssc': 'SSC', 'fl': ['V%d-A' % i for i in range(1, 13)], 'time': 'Time'}
MEF_LADDER = [0, 800, 2500, 8000, 25000, 80000, 240000]
UNITS_OK = ['Channel', 'channel', 'CHANNEL', 'RFI', 'rfi', 'a.u.', 'A.U.', 'au', 'AU', 'MEF', 'mef', 'Mef', ' MEF ']

SAMPLE_FAULTS = ['file_not_found', 'enoent_at_open', 'eacces_at_open', 'path_is_directory', 'path_through_file',
                 'case_variant_missing', 'few_events', 'gate_fraction_neg', 'gate_fraction_big',
                 'bad_units', 'beads_failed', 'beads_no_mef', 'no_std_curve', 'other_instrument', 'other_amp_type',
                 'other_voltage']
BEAD_FAULTS = ['file_not_found', 'few_events', 'gate_fraction_big', 'gate_fraction_neg', 'unequal_mef']


def channels_of(inst):
    return list(inst.get('layout') or ([inst['fsc'], inst['ssc']] + list(inst['fl']) + [inst['time']]))


def file_spec(desc):
    """desc -> fcs_ref spec (deterministic in desc['seed'])."""
    inst = desc['inst']
    names = channels_of(inst)
    fl_names = list(inst['fl'])
    sc_names = [n for n in names if n not in fl_names and n != inst['time']]
    nfl = len(fl_names)
    D = len(names)
    g = np.random.default_rng(desc['seed'])
    N = desc['n']
    dt = desc.get('datatype', 'I')
    res = 256 if (desc.get('res256') and dt == 'I') else 1024
    col = {}
    if desc['kind'] == 'beads':
        npop = desc.get('npop', 6)
        mef = np.array(MEF_LADDER[:npop], dtype=float)
        per = N // npop
        sizes = [per] * (npop - 1) + [N - per * (npop - 1)]
        order = g.permutation(N)
        for si, nm in enumerate(sc_names):
            col[nm] = np.concatenate([np.clip(g.normal(500 - 40 * si, 25, n_k), 1, 1022) for n_k in sizes])[order]
        for j, nm in enumerate(fl_names):
            m, b, auto = 1.05 - 0.03 * (j % 3), 2.0 + 0.3 * (j % 3), 300. + 100 * (j % 3)
            parts = []
            for k, n_k in enumerate(sizes):
                rfi = np.exp((np.log(mef[k] + auto) - b) / m)
                fl = rfi * np.exp(g.normal(0, 0.04, n_k))
                parts.append(np.clip(np.round(res / 4. * np.log10(fl)), 0, res - 1))
            col[nm] = np.concatenate(parts)[order]
        col[inst['time']] = np.arange(N) * 3
    else:
        base = {0: np.clip(g.normal(520, 90, N), 0, 1023), 1: np.clip(g.normal(380, 110, N), 0, 1023)}
        for si, nm in enumerate(sc_names):
            if si < 2:
                col[nm] = base[si]
            else:
                col[nm] = np.clip(base[si % 2] * (0.8 + 0.3 * (si % 2)) + g.normal(0, 15, N), 0, 1023)
        for j, nm in enumerate(fl_names):
            if dt == 'I':
                fl = np.exp(g.normal(np.log(200. * (j % 4 + 1)), 0.6, N))
                col[nm] = np.clip(np.round(res / 4. * np.log10(fl)), 0, res - 1)
            else:
                x = g.normal(180. * (j % 4 + 1), 160., N)             # includes non-positive events
                if desc.get('clip0') and j % 2 == 0:
                    x = np.clip(x, 0.0, None)                         # exact zeros, no negatives
                col[nm] = x
        col[inst['time']] = np.arange(N) * 2 + 5
        if dt != 'I' and desc.get('negscatter'):
            # baseline-subtracted (area) scatter signals: a share of the events is negative
            g2 = np.random.default_rng(desc['seed'] + 1)
            for si, nm in enumerate(sc_names):
                col[nm] = g2.normal(140 + 30 * (si % 2), 110, N)
        if dt != 'I' and desc.get('overrange'):
            # floating point data may exceed the nominal range (compensation, area signals)
            for nm in sc_names[:2]:
                jj = g.choice(N, size=max(2, N // 40), replace=False)
                col[nm] = np.array(col[nm])
                col[nm][jj] = g.uniform(1100, 4000, len(jj))
        if dt != 'I' and desc.get('nudge'):
            # a replicate acquisition: the same events with every fluorescence signal a fraction of a percent off
            # (parameters derived from the extremes of any subset are nearly, not exactly, equal)
            for nm in fl_names + sc_names:
                col[nm] = np.array(col[nm], dtype=float) * desc['nudge']
        if dt == 'I':
            # a few saturated events in every scatter and fluorescence channel
            k = max(1, N // 60)
            for nm in sc_names:
                jj = g.choice(N, size=min(N, 2 * k), replace=False)
                col[nm] = np.array(col[nm])
                col[nm][jj[:k]] = 1023
                col[nm][jj[k:]] = 0
            for nm in fl_names:
                jj = g.choice(N, size=min(N, 2 * k), replace=False)
                col[nm][jj[:k]] = res - 1
                col[nm][jj[k:]] = 0
    # the same channels exported in another column order (another acquisition template / export tool)
    variant = desc.get('layout_variant')
    if variant == 'time_first':
        names = [inst['time']] + [n for n in names if n != inst['time']]
    elif variant == 'reversed':
        names = names[::-1]
    elif variant == 'swap_fl' and nfl >= 2:
        i0, i1 = names.index(fl_names[0]), names.index(fl_names[1])
        names[i0], names[i1] = names[i1], names[i0]
    ev = np.c_[tuple(np.asarray(col[nm], dtype=float) for nm in names)]
    if dt == 'I':
        ev = np.round(ev).astype(np.int64)
        widths = [16] * D
        ranges = [(res if nm in fl_names else 1024) for nm in names]
        ti = names.index(inst['time'])
        widths[ti] = 32
        ranges[ti] = 65536 * 4
        events = ev.tolist()
    else:
        widths = [32] * D
        ranges = [(1024 if (desc.get('overrange') and nm in sc_names) else 262144) for nm in names]
        events = [[float(np.float32(v)) for v in row] for row in ev.tolist()]
    amp = desc.get('amp', 'log')
    pne = [('4,1' if (nm in fl_names and amp == 'log' and dt == 'I') else '0,0') for nm in names]
    extra = [['$TIMESTEP', desc.get('timestep', '0.01')], ['$BTIM', '10:00:00'], ['$ETIM', '10:03:20'], ['$DATE', '05-JAN-2020']]
    volt = desc.get('volt', 500)
    for j, nm in enumerate(fl_names):
        if volt is not None:
            extra.append(['$P%dV' % (names.index(nm) + 1), str(volt + 50 * (j % 4))])
    if desc.get('sgain'):
        # linear scatter amplifiers with a gain: the scatter conversion to RFI is not the identity
        for si, nm in enumerate(sc_names):
            extra.append(['$P%dG' % (names.index(nm) + 1), str(desc['sgain'] * (si + 1))])
    spec = {'version': desc.get('version', 'FCS3.0'), 'datatype': dt, 'byteord': desc.get('byteord', '1,2,3,4'),
            'widths': widths, 'ranges': ranges, 'names': names, 'delim': '/', 'order': ['TEXT', 'DATA'],
            'pne': pne, 'events': events, 'extra': extra, 'header_data': True}
    return spec


def file_bytes(desc):
    return fcs_ref.build(file_spec(desc))[0]


def gen_experiment(rng, faults=True, max_samples=5, max_beads=2, small=False, plan=None, wide=False):
    """Returns a JSON-able experiment: instruments, files, beads rows, sample rows (with fault annotations).
    `plan` (optional) forces the instrument, fault kind and calibration content of every row:
    {'n_inst': 2, 'beads': [{'inst': 0, 'fault': None, 'mef': 1}, ...], 'samples': [{'inst': 0, 'fault': 'few_events'}, ...]}"""
    n_inst = plan['n_inst'] if plan else rng.wchoice([(1, 5), (2, 3), (3, 1)])
    insts = copy.deepcopy(INSTRUMENTS[:n_inst])
    if not plan and rng.chance(0.3):
        insts.append(copy.deepcopy(SIBLING))
    if not plan:
        for i in insts:
            i['cell_style'] = rng.choice([0, 0, 1, 2, 3])
    if wide:
        insts = [copy.deepcopy(WIDE)]
    files = {}
    exp = {'instruments': insts, 'files': files, 'beads': [], 'samples': []}
    nb = len(plan['beads']) if plan else rng.randint(0, max_beads)
    fid = [0]

    def new_file(kind, inst, n, **kw):
        fid[0] += 1
        name = '%s%d.fcs' % ('b' if kind == 'beads' else 's', fid[0])
        if rng.chance(0.3):
            name = 'FCFiles/' + name
        d = {'kind': kind, 'inst': inst, 'n': n, 'seed': rng.randint(0, 2 ** 31 - 1)}
        d.update(kw)
        files[name] = d
        return name

    for k in range(nb):
        bp = plan['beads'][k] if plan else None
        inst = insts[bp['inst']] if bp else rng.choice(insts)
        fl = inst['fl']
        npop = rng.choice([5, 6])
        mef_ch = [fl[0]] if (rng.chance(0.6) or bp) else list(fl[:2])
        bid = 'B%d' % (k + 1) if (plan or rng.chance(0.75)) else rng.choice(['beads.%d' % k, 'B%d v1.2' % k])
        row = {'ID': bid, 'Instrument ID': inst['ID'], 'Gate Fraction': rng.choice([0.5, 0.65, 0.8]),
               'Clustering Channels': ', '.join(mef_ch if rng.chance(0.7) else [fl[0]]), 'fault': None, 'mef': {}}
        for c in mef_ch:
            vals = [str(v) for v in MEF_LADDER[:npop]]
            if rng.chance(0.3):
                vals[0] = 'None'
            row['mef'][c] = ', '.join(vals)
        n = rng.choice([2000, 2400])
        f = rng.choice(BEAD_FAULTS) if (faults and rng.chance(0.3)) else None
        if bp:
            f = bp['fault']
        if (rng.chance(0.12) and f is None and not bp) or (bp and not bp['mef']):
            row['mef'] = {}                                      # healthy row without calibration
        if f == 'few_events':
            n = rng.choice([120, 399])
        row['File Path'] = new_file('beads', inst, n, npop=npop, volt=rng.choice([500, 600]),
                                    layout_variant=rng.choice([None, None, None, 'time_first', 'swap_fl']))
        if f == 'file_not_found':
            row['File Path'] = 'missing_%d.fcs' % k
        elif f == 'gate_fraction_big':
            row['Gate Fraction'] = 1.5
        elif f == 'gate_fraction_neg':
            row['Gate Fraction'] = -0.2
        elif f == 'unequal_mef':
            if len(mef_ch) < 2:
                mef_ch = list(fl[:2])
                row['mef'] = {c: ', '.join(str(v) for v in MEF_LADDER[:npop]) for c in mef_ch}
            row['mef'][mef_ch[1]] = ', '.join(str(v) for v in MEF_LADDER[:npop - 1])
        row['fault'] = f
        exp['beads'].append(row)

    ns = len(plan['samples']) if plan else rng.randint(1, max_samples)
    for k in range(ns):
        sp = plan['samples'][k] if plan else None
        inst = insts[sp['inst']] if sp else rng.choice(insts)
        fl = inst['fl']
        dt = rng.wchoice([('I', 7), ('F', 3)])
        sid = 'S%d' % (k + 1)
        if not plan and rng.chance(0.3):
            sid = rng.choice(['pH7.%d' % k, '0.5mM rep%d' % k, 'S%d.0' % (k + 1), 'ctrl %d' % k, 'a.b.c%d' % k])
        row = {'ID': sid, 'Instrument ID': inst['ID'], 'Beads ID': None,
               'Gate Fraction': rng.choice([0.2, 0.5, 0.65, 0.9, 1.0]), 'units': {}, 'fault': None,
               'Note': rng.choice(['ctrl', 'x', 'rep %d' % k])}
        # healthy beads on the same instrument with matching settings
        good_beads = [b for b in exp['beads'] if b['fault'] is None and b['mef'] and b['Instrument ID'] == inst['ID']]
        volt = 500
        mef_bias = False
        if good_beads:
            gb = rng.choice(good_beads)
            volt = files[gb['File Path']]['volt']
            # calibrated rows sharing one set of beads are where rows can influence each other: half of the rows that
            # could be calibrated are
            mef_bias = rng.chance(0.5)
            if mef_bias:
                dt = 'I'
        for c in fl:
            u = rng.wchoice([(None, 3), ('Channel', 2), ('RFI', 2), ('a.u.', 2), ('MEF', 4)])
            if mef_bias and c in gb['mef'] and rng.chance(0.7):
                u = 'MEF'
            if u == 'MEF' and not (good_beads and c in gb['mef'] and dt == 'I'):
                u = 'RFI'
            if u is not None:
                variants = [v for v in UNITS_OK if v.strip().lower() == u.lower() or
                            (u == 'a.u.' and v.lower() in ('a.u.', 'au'))]
                row['units'][c] = rng.choice(variants)
                if u == 'MEF':
                    row['Beads ID'] = gb['ID']
        f = rng.choice(SAMPLE_FAULTS) if (faults and rng.chance(0.35)) else None
        if f is not None and good_beads and rng.chance(0.4):
            # faults that only exist relative to a calibration are the rarer context: give them weight when they can occur
            f = rng.choice(['other_amp_type', 'other_voltage', 'no_std_curve'])
        if sp:
            f = sp['fault']
        n = rng.choice([800, 1000]) if not small else 760
        if rng.chance(0.08):
            n = 400                # exactly the documented minimum: still a well-formed row
        amp = 'log'
        # faults that need a particular context fall back to a context-free one
        fl0 = rng.choice(fl)
        if f in ('bad_units', 'beads_failed', 'beads_no_mef') and rng.chance(0.5):
            for c in fl[:fl.index(fl0)]:
                row['units'].pop(c, None)                # fault in a later channel, earlier cells empty
        if f in ('beads_failed',) and not [b for b in exp['beads'] if b['fault'] is not None]:
            f = 'bad_units'
        if f == 'beads_no_mef' and not [b for b in exp['beads'] if b['fault'] is None and not b['mef']]:
            f = 'few_events'
        if f in ('no_std_curve', 'other_amp_type', 'other_voltage') and not good_beads:
            f = 'gate_fraction_big'
        if f == 'other_instrument' and not [b for b in exp['beads'] if b['fault'] is None and b['mef']
                                            and b['Instrument ID'] != inst['ID']]:
            f = 'file_not_found'
        if f == 'case_variant_missing' and not [x for x in exp['samples'] if x['fault'] is None and x['File Path'] in files]:
            f = 'path_is_directory'
        if f == 'few_events':
            n = rng.choice([50, 399])
        elif f == 'gate_fraction_neg':
            row['Gate Fraction'] = -0.5
        elif f == 'gate_fraction_big':
            row['Gate Fraction'] = 1.2
        elif f == 'bad_units':
            row['units'][fl0] = rng.choice(['furlongs', 'MEFL', 'arb', 'ME', 'RF', 'Chan', 'a.u', 'RFI units', 'mef/cell'])
        elif f == 'beads_failed':
            fb = rng.choice([b for b in exp['beads'] if b['fault'] is not None])
            row['Beads ID'] = fb['ID']
            row['units'][fl0] = 'MEF'
            dt = 'I'
        elif f == 'beads_no_mef':
            fb = rng.choice([b for b in exp['beads'] if b['fault'] is None and not b['mef']])
            row['Beads ID'] = fb['ID']
            row['units'][fl0] = 'MEF'
            dt = 'I'
        elif f == 'no_std_curve':
            dt = 'I'
            row['Beads ID'] = gb['ID']
            missing = [c for c in fl if c not in gb['mef']]
            if not missing:
                f = 'bad_units'
                row['units'][fl0] = 'parsecs'
            else:
                row['units'] = {c: u for c, u in row['units'].items() if c in gb['mef']}
                row['units'][missing[0]] = 'MEF'
        elif f == 'other_instrument':
            ob = rng.choice([b for b in exp['beads'] if b['fault'] is None and b['mef'] and b['Instrument ID'] != inst['ID']])
            row['Beads ID'] = ob['ID']
            row['units'] = {fl0: 'MEF'}
            dt = 'I'
        elif f == 'other_amp_type':
            dt = 'I'
            row['Beads ID'] = gb['ID']
            c = sorted(gb['mef'])[0]
            row['units'][c] = 'MEF'
            amp = 'lin'
        elif f == 'other_voltage':
            dt = 'I'
            row['Beads ID'] = gb['ID']
            c = sorted(gb['mef'])[0]
            row['units'][c] = 'MEF'
            volt = rng.choice([volt + 75, volt + 75, 0])       # 0 V is a recorded setting too
        if f is None and rng.chance(0.4 if any((u or '').strip().lower() == 'mef' for u in row['units'].values()) else 0.15):
            volt = None            # a re-exported file without $PnV: the voltage check does not apply (documented optional)
        reuse = None
        if f is None and not plan and exp['samples'] and rng.chance(0.3):
            # the same file again, possibly seen through the sibling description of the cytometer
            prev = exp['samples'][-1]
            pinst = [i for i in insts if i['ID'] == prev['Instrument ID']][0]
            if prev['fault'] is None and channels_of(pinst) == channels_of(inst) and \
                    files.get(prev['File Path'], {}).get('datatype', 'I') == dt and not any(
                        (u or '').strip().lower() == 'mef' for u in row['units'].values()):
                reuse = prev['File Path']
        if reuse:
            row['File Path'] = reuse
            row['fault'] = None
            sib = [i for i in insts if i['ID'] != pinst['ID'] and channels_of(i) == channels_of(pinst)]
            if sib and rng.chance(0.7):
                row['Instrument ID'] = sib[0]['ID']
            exp['samples'].append(row)
            continue
        row['File Path'] = new_file('cells', inst, n, datatype=dt, volt=volt, amp=amp, clip0=bool(dt == 'F' and rng.chance(0.4)),
                                    sgain=rng.choice([None, None, 2.0, 0.5]), res256=bool(f is None and rng.chance(0.2)
                                                                                        and not good_beads),
                                    overrange=bool(dt == 'F' and rng.chance(0.4)),
                                    version=rng.choice(['FCS2.0', 'FCS3.0', 'FCS3.1']),
                                    byteord=rng.choice(['1,2,3,4', '4,3,2,1']),
                                    layout_variant=rng.choice([None, None, None, 'time_first', 'reversed', 'swap_fl']),
                                    timestep=rng.choice(['0.01'] * 9 + ['0', '0.0']),
                                    negscatter=bool(dt == 'F' and rng.chance(0.3)))
        # (only files of earlier HEALTHY rows: the file of a too-few-events row must not be replicated under a healthy row)
        twins = [x['File Path'] for x in exp['samples'] if x['fault'] is None and x['File Path'] in files
                 and x['File Path'] != row['File Path'] and files[x['File Path']]['kind'] == 'cells'
                 and files[x['File Path']].get('datatype') == 'F' and files[x['File Path']]['inst'] is inst
                 and not files[x['File Path']].get('nudge')]
        if dt == 'F' and f is None and twins and rng.chance(0.6):
            tname = rng.choice(twins)
            src = files[tname]
            keep = files[row['File Path']]
            files[row['File Path']] = dict(src, nudge=rng.choice([1.001, 0.999, 1.002]), volt=keep['volt'])
            prow = [x for x in exp['samples'] if x['File Path'] == tname and x['fault'] is None]
            if prow and rng.chance(0.7):
                row['units'] = dict(prow[0]['units'])          # replicates are usually reported alike
        if f == 'file_not_found':
            row['File Path'] = 'nowhere/none_%d.fcs' % k
        elif f == 'path_is_directory':
            exp.setdefault('dirs', []).append('plate_%d' % k)
            row['File Path'] = 'plate_%d' % k                       # a folder where a file is expected
        elif f == 'path_through_file':
            row['File Path'] = row['File Path'] + '/inner.fcs'       # a path that runs through a regular file
        elif f == 'case_variant_missing':
            # an existing file of an earlier row, spelled in another letter case (missing on a case-sensitive disk)
            prevp = [x['File Path'] for x in exp['samples'] if x['fault'] is None and x['File Path'] in files][-1]
            del files[row['File Path']]
            row['File Path'] = prevp.upper() if prevp.upper() != prevp else prevp.lower()
        row['fault'] = f
        exp['samples'].append(row)
    if rng.chance(0.5) and not plan:
        rng.shuffle(exp['samples'])
    return exp


def add_replicate_pair(exp, index):
    """Appends two healthy float rows on the first instrument: one acquisition with negative scatter events and its
    replicate with every signal a fraction of a percent off. Draws nothing from the run's PRNG (the rest of the case
    is the same with and without the pair); the file seeds derive from the run index."""
    inst = exp['instruments'][0]
    files = exp['files']
    have = set(x['ID'] for x in exp['samples'])
    ids = [i for i in ('RP1', 'RP2') if i not in have]
    if len(ids) < 2:
        return exp
    base = {'kind': 'cells', 'inst': inst, 'n': 760, 'seed': 7919 * (index + 1) % (2 ** 31 - 1), 'datatype': 'F',
            'volt': 500, 'amp': 'log', 'clip0': False, 'sgain': None, 'res256': False, 'overrange': False,
            'version': 'FCS3.0', 'byteord': '1,2,3,4', 'layout_variant': None, 'timestep': '0.01', 'negscatter': True}
    nudge = (1.001, 0.999, 1.002)[(index // 13) % 3]
    units = {c: ('RFI', 'a.u.', 'Channel')[(index // 13 + j) % 3] for j, c in enumerate(inst['fl'])}
    gf = (0.5, 0.65, 0.9)[(index // 39) % 3]
    for i, (sid, d) in enumerate(zip(ids, (base, dict(base, nudge=nudge)))):
        name = 'rp%d_%d.fcs' % (index, i)
        files[name] = d
        exp['samples'].append({'ID': sid, 'Instrument ID': inst['ID'], 'Beads ID': None, 'Gate Fraction': gf,
                               'units': dict(units), 'fault': None, 'Note': 'replicate pair', 'File Path': name})
    return exp


def tables(exp):
    """pandas tables as read_table would return them (index = ID)."""
    import pandas as pd
    def cell(names, style):
        # users type these lists by hand: "A, B", "A,B", " A , B "
        return {None: ', '.join(names), 0: ', '.join(names), 1: ','.join(names), 2: ' ' + ' , '.join(names) + ' ',
                3: ', '.join(names) + ' '}[style]
    inst = pd.DataFrame([{'ID': i['ID'], 'Forward Scatter Channel': i['fsc'], 'Side Scatter Channel': i['ssc'],
                          'Fluorescence Channels': cell(i['fl'], i.get('cell_style')), 'Time Channel': i['time']}
                         for i in exp['instruments']]).set_index('ID')
    all_fl = []
    for i in exp['instruments']:
        for c in i['fl']:
            if c not in all_fl:
                all_fl.append(c)
    brow = []
    for b in exp['beads']:
        r = {'ID': b['ID'], 'Instrument ID': b['Instrument ID'], 'File Path': b['File Path']}
        for c in all_fl:
            r[c + ' MEF Values'] = b['mef'].get(c)
        r['Gate Fraction'] = b['Gate Fraction']
        r['Clustering Channels'] = b['Clustering Channels']
        brow.append(r)
    bcols = ['ID', 'Instrument ID', 'File Path'] + [c + ' MEF Values' for c in all_fl] + ['Gate Fraction', 'Clustering Channels']
    beads = pd.DataFrame(brow, columns=bcols).set_index('ID')
    srow = []
    for s in exp['samples']:
        r = {'ID': s['ID'], 'Instrument ID': s['Instrument ID'], 'Beads ID': s['Beads ID'], 'File Path': s['File Path']}
        for c in all_fl:
            r[c + ' Units'] = s['units'].get(c)
        r['Gate Fraction'] = s['Gate Fraction']
        r['Note'] = s.get('Note')
        srow.append(r)
    scols = ['ID', 'Instrument ID', 'Beads ID', 'File Path'] + [c + ' Units' for c in all_fl] + ['Gate Fraction', 'Note']
    samples = pd.DataFrame(srow, columns=scols).set_index('ID')
    return inst, beads, samples
