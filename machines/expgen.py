"""Experiment generator for the Excel-UI machines (C10, C11, C15): instruments, bead
rows, cell-sample rows, the FCS files they refer to (synthetic, seeded) and the row
faults the workflow documents."""
import copy

import numpy as np

from models import fcs_ref

INSTRUMENTS = [
    {'ID': 'I1', 'fsc': 'FSC-H', 'ssc': 'SSC-H', 'fl': ['FL1-H', 'FL2-H'], 'time': 'Time'},
    {'ID': 'I2', 'fsc': 'FSC-A', 'ssc': 'SSC-A', 'fl': ['BL1-A', 'YL2-A'], 'time': 'TIME'},
    {'ID': 'I3', 'fsc': 'FS Lin', 'ssc': 'SS Log', 'fl': ['GFP', 'mCh', 'BFP'], 'time': 'time'},
]
MEF_LADDER = [0, 800, 2500, 8000, 25000, 80000, 240000]
UNITS_OK = ['Channel', 'channel', 'CHANNEL', 'RFI', 'rfi', 'a.u.', 'A.U.', 'au', 'AU', 'MEF', 'mef', 'Mef', ' MEF ']

SAMPLE_FAULTS = ['file_not_found', 'enoent_at_open', 'few_events', 'gate_fraction_neg', 'gate_fraction_big',
                 'bad_units', 'beads_failed', 'beads_no_mef', 'no_std_curve', 'other_instrument', 'other_amp_type',
                 'other_voltage']
BEAD_FAULTS = ['file_not_found', 'few_events', 'gate_fraction_big', 'gate_fraction_neg', 'unequal_mef']


def channels_of(inst):
    return [inst['fsc'], inst['ssc']] + list(inst['fl']) + [inst['time']]


def file_spec(desc):
    """desc -> fcs_ref spec (deterministic in desc['seed'])."""
    inst = desc['inst']
    names = channels_of(inst)
    nfl = len(inst['fl'])
    D = len(names)
    g = np.random.default_rng(desc['seed'])
    N = desc['n']
    dt = desc.get('datatype', 'I')
    cols = []
    if desc['kind'] == 'beads':
        npop = desc.get('npop', 6)
        mef = np.array(MEF_LADDER[:npop], dtype=float)
        per = N // npop
        parts = []
        for k in range(npop):
            n_k = per if k < npop - 1 else N - per * (npop - 1)
            fsc = np.clip(g.normal(500, 25, n_k), 1, 1022)
            ssc = np.clip(g.normal(420, 25, n_k), 1, 1022)
            fls = []
            for j in range(nfl):
                m, b, auto = 1.05 - 0.03 * j, 2.0 + 0.3 * j, 300. + 100 * j
                rfi = np.exp((np.log(mef[k] + auto) - b) / m)
                fl = rfi * np.exp(g.normal(0, 0.04, n_k))
                fls.append(np.clip(np.round(1024 / 4. * np.log10(fl)), 0, 1023))
            parts.append(np.c_[fsc, ssc] if not fls else np.c_[fsc, ssc, np.c_[tuple(fls)]])
        ev = np.vstack(parts)
        g.shuffle(ev)
        ev = np.c_[ev, np.arange(N) * 3]
        ev = np.round(ev).astype(np.int64)
    else:
        fsc = np.clip(g.normal(520, 90, N), 0, 1023)
        ssc = np.clip(g.normal(380, 110, N), 0, 1023)
        fls = []
        for j in range(nfl):
            if dt == 'I':
                fl = np.exp(g.normal(np.log(200. * (j + 1)), 0.6, N))
                fls.append(np.clip(np.round(1024 / 4. * np.log10(fl)), 0, 1023))
            else:
                x = g.normal(180. * (j + 1), 160., N)                 # includes non-positive events
                if desc.get('clip0') and j % 2 == 0:
                    x = np.clip(x, 0.0, None)                         # exact zeros, no negatives
                fls.append(x)
        ev = np.c_[fsc, ssc, np.c_[tuple(fls)], np.arange(N) * 2 + 5]
        if dt == 'I':
            ev = np.round(ev).astype(np.int64)
            # a few saturated events in scatter and fluorescence channels
            k = max(1, N // 60)
            idx = g.choice(N, size=min(N, 4 * k), replace=False)
            ev[idx[:k], 0] = 1023
            ev[idx[k:2 * k], 1] = 0
            for j in range(nfl):
                jj = g.choice(N, size=min(N, 2 * k), replace=False)
                ev[jj[:k], 2 + j] = 1023
                ev[jj[k:], 2 + j] = 0
    if dt == 'I':
        widths = [16] * D
        ranges = [1024] * (D - 1) + [65536 * 4]
        widths[-1] = 32
        events = ev.tolist()
    else:
        widths = [32] * D
        ranges = [262144] * D
        events = [[float(np.float32(v)) for v in row] for row in ev.tolist()]
    amp = desc.get('amp', 'log')
    pne = ['0,0', '0,0'] + [('4,1' if (amp == 'log' and dt == 'I') else '0,0')] * nfl + ['0,0']
    extra = [['$TIMESTEP', '0.01'], ['$BTIM', '10:00:00'], ['$ETIM', '10:03:20'], ['$DATE', '05-JAN-2020']]
    volt = desc.get('volt', 500)
    for j in range(nfl):
        if volt is not None:
            extra.append(['$P%dV' % (3 + j), str(volt + 50 * j)])
    if desc.get('gain'):
        extra.append(['$P1G', str(desc['gain'])])
    spec = {'version': desc.get('version', 'FCS3.0'), 'datatype': dt, 'byteord': desc.get('byteord', '1,2,3,4'),
            'widths': widths, 'ranges': ranges, 'names': names, 'delim': '/', 'order': ['TEXT', 'DATA'],
            'pne': pne, 'events': events, 'extra': extra, 'header_data': True}
    return spec


def file_bytes(desc):
    return fcs_ref.build(file_spec(desc))[0]


def gen_experiment(rng, faults=True, max_samples=5, max_beads=2, small=False, plan=None):
    """Returns a JSON-able experiment: instruments, files, beads rows, sample rows (with fault annotations).
    `plan` (optional) forces the instrument, fault kind and calibration content of every row:
    {'n_inst': 2, 'beads': [{'inst': 0, 'fault': None, 'mef': 1}, ...], 'samples': [{'inst': 0, 'fault': 'few_events'}, ...]}"""
    n_inst = plan['n_inst'] if plan else rng.wchoice([(1, 5), (2, 3), (3, 1)])
    insts = copy.deepcopy(INSTRUMENTS[:n_inst])
    files = {}
    exp = {'instruments': insts, 'files': files, 'beads': [], 'samples': []}
    nb = len(plan['beads']) if plan else rng.randint(0, max_beads)
    fid = [0]

    def new_file(kind, inst, n, **kw):
        fid[0] += 1
        name = '%s%d.fcs' % ('b' if kind == 'beads' else 's', fid[0])
        if rng.chance(0.3):
            name = 'FCFiles/' + name
        d = {'kind': kind, 'inst': inst, 'n': n, 'seed': rng.randint(0, 2 ** 31 - 1)}
        d.update(kw)
        files[name] = d
        return name

    for k in range(nb):
        bp = plan['beads'][k] if plan else None
        inst = insts[bp['inst']] if bp else rng.choice(insts)
        fl = inst['fl']
        npop = rng.choice([5, 6])
        mef_ch = [fl[0]] if (rng.chance(0.6) or bp) else list(fl[:2])
        row = {'ID': 'B%d' % (k + 1), 'Instrument ID': inst['ID'], 'Gate Fraction': rng.choice([0.5, 0.65, 0.8]),
               'Clustering Channels': ', '.join(mef_ch if rng.chance(0.7) else [fl[0]]), 'fault': None, 'mef': {}}
        for c in mef_ch:
            vals = [str(v) for v in MEF_LADDER[:npop]]
            if rng.chance(0.3):
                vals[0] = 'None'
            row['mef'][c] = ', '.join(vals)
        n = rng.choice([2000, 2400])
        f = rng.choice(BEAD_FAULTS) if (faults and rng.chance(0.3)) else None
        if bp:
            f = bp['fault']
        if (rng.chance(0.12) and f is None and not bp) or (bp and not bp['mef']):
            row['mef'] = {}                                      # healthy row without calibration
        if f == 'few_events':
            n = rng.choice([120, 399])
        row['File Path'] = new_file('beads', inst, n, npop=npop, volt=rng.choice([500, 600]))
        if f == 'file_not_found':
            row['File Path'] = 'missing_%d.fcs' % k
        elif f == 'gate_fraction_big':
            row['Gate Fraction'] = 1.5
        elif f == 'gate_fraction_neg':
            row['Gate Fraction'] = -0.2
        elif f == 'unequal_mef':
            if len(mef_ch) < 2:
                mef_ch = list(fl[:2])
                row['mef'] = {c: ', '.join(str(v) for v in MEF_LADDER[:npop]) for c in mef_ch}
            row['mef'][mef_ch[1]] = ', '.join(str(v) for v in MEF_LADDER[:npop - 1])
        row['fault'] = f
        exp['beads'].append(row)

    ns = len(plan['samples']) if plan else rng.randint(1, max_samples)
    for k in range(ns):
        sp = plan['samples'][k] if plan else None
        inst = insts[sp['inst']] if sp else rng.choice(insts)
        fl = inst['fl']
        dt = rng.wchoice([('I', 7), ('F', 3)])
        row = {'ID': 'S%d' % (k + 1), 'Instrument ID': inst['ID'], 'Beads ID': None,
               'Gate Fraction': rng.choice([0.2, 0.5, 0.65, 0.9, 1.0]), 'units': {}, 'fault': None,
               'Note': rng.choice(['ctrl', 'x', 'rep %d' % k])}
        # healthy beads on the same instrument with matching settings
        good_beads = [b for b in exp['beads'] if b['fault'] is None and b['mef'] and b['Instrument ID'] == inst['ID']]
        volt = 500
        if good_beads:
            gb = rng.choice(good_beads)
            volt = files[gb['File Path']]['volt']
        for c in fl:
            u = rng.wchoice([(None, 3), ('Channel', 2), ('RFI', 2), ('a.u.', 2), ('MEF', 4)])
            if u == 'MEF' and not (good_beads and c in gb['mef'] and dt == 'I'):
                u = 'RFI'
            if u is not None:
                variants = [v for v in UNITS_OK if v.strip().lower() == u.lower() or
                            (u == 'a.u.' and v.lower() in ('a.u.', 'au'))]
                row['units'][c] = rng.choice(variants)
                if u == 'MEF':
                    row['Beads ID'] = gb['ID']
        f = rng.choice(SAMPLE_FAULTS) if (faults and rng.chance(0.35)) else None
        if sp:
            f = sp['fault']
        n = rng.choice([800, 1000]) if not small else 760
        amp = 'log'
        # faults that need a particular context fall back to a context-free one
        fl0 = rng.choice(fl)
        if f in ('bad_units', 'beads_failed', 'beads_no_mef') and rng.chance(0.5):
            for c in fl[:fl.index(fl0)]:
                row['units'].pop(c, None)                # fault in a later channel, earlier cells empty
        if f in ('beads_failed',) and not [b for b in exp['beads'] if b['fault'] is not None]:
            f = 'bad_units'
        if f == 'beads_no_mef' and not [b for b in exp['beads'] if b['fault'] is None and not b['mef']]:
            f = 'few_events'
        if f in ('no_std_curve', 'other_amp_type', 'other_voltage') and not good_beads:
            f = 'gate_fraction_big'
        if f == 'other_instrument' and not [b for b in exp['beads'] if b['fault'] is None and b['mef']
                                            and b['Instrument ID'] != inst['ID']]:
            f = 'file_not_found'
        if f == 'few_events':
            n = rng.choice([50, 399])
        elif f == 'gate_fraction_neg':
            row['Gate Fraction'] = -0.5
        elif f == 'gate_fraction_big':
            row['Gate Fraction'] = 1.2
        elif f == 'bad_units':
            row['units'][fl0] = rng.choice(['furlongs', 'MEFL', 'arb'])
        elif f == 'beads_failed':
            fb = rng.choice([b for b in exp['beads'] if b['fault'] is not None])
            row['Beads ID'] = fb['ID']
            row['units'][fl0] = 'MEF'
            dt = 'I'
        elif f == 'beads_no_mef':
            fb = rng.choice([b for b in exp['beads'] if b['fault'] is None and not b['mef']])
            row['Beads ID'] = fb['ID']
            row['units'][fl0] = 'MEF'
            dt = 'I'
        elif f == 'no_std_curve':
            dt = 'I'
            row['Beads ID'] = gb['ID']
            missing = [c for c in fl if c not in gb['mef']]
            if not missing:
                f = 'bad_units'
                row['units'][fl0] = 'parsecs'
            else:
                row['units'] = {c: u for c, u in row['units'].items() if c in gb['mef']}
                row['units'][missing[0]] = 'MEF'
        elif f == 'other_instrument':
            ob = rng.choice([b for b in exp['beads'] if b['fault'] is None and b['mef'] and b['Instrument ID'] != inst['ID']])
            row['Beads ID'] = ob['ID']
            row['units'] = {fl0: 'MEF'}
            dt = 'I'
        elif f == 'other_amp_type':
            dt = 'I'
            row['Beads ID'] = gb['ID']
            c = sorted(gb['mef'])[0]
            row['units'][c] = 'MEF'
            amp = 'lin'
        elif f == 'other_voltage':
            dt = 'I'
            row['Beads ID'] = gb['ID']
            c = sorted(gb['mef'])[0]
            row['units'][c] = 'MEF'
            volt = volt + 75
        row['File Path'] = new_file('cells', inst, n, datatype=dt, volt=volt, amp=amp, clip0=bool(dt == 'F' and rng.chance(0.4)),
                                    version=rng.choice(['FCS2.0', 'FCS3.0', 'FCS3.1']),
                                    byteord=rng.choice(['1,2,3,4', '4,3,2,1']))
        if f == 'file_not_found':
            row['File Path'] = 'nowhere/none_%d.fcs' % k
        row['fault'] = f
        exp['samples'].append(row)
    if rng.chance(0.5) and not plan:
        rng.shuffle(exp['samples'])
    return exp


def tables(exp):
    """pandas tables as read_table would return them (index = ID)."""
    import pandas as pd
    inst = pd.DataFrame([{'ID': i['ID'], 'Forward Scatter Channel': i['fsc'], 'Side Scatter Channel': i['ssc'],
                          'Fluorescence Channels': ', '.join(i['fl']), 'Time Channel': i['time']}
                         for i in exp['instruments']]).set_index('ID')
    all_fl = []
    for i in exp['instruments']:
        for c in i['fl']:
            if c not in all_fl:
                all_fl.append(c)
    brow = []
    for b in exp['beads']:
        r = {'ID': b['ID'], 'Instrument ID': b['Instrument ID'], 'File Path': b['File Path']}
        for c in all_fl:
            r[c + ' MEF Values'] = b['mef'].get(c)
        r['Gate Fraction'] = b['Gate Fraction']
        r['Clustering Channels'] = b['Clustering Channels']
        brow.append(r)
    bcols = ['ID', 'Instrument ID', 'File Path'] + [c + ' MEF Values' for c in all_fl] + ['Gate Fraction', 'Clustering Channels']
    beads = pd.DataFrame(brow, columns=bcols).set_index('ID')
    srow = []
    for s in exp['samples']:
        r = {'ID': s['ID'], 'Instrument ID': s['Instrument ID'], 'Beads ID': s['Beads ID'], 'File Path': s['File Path']}
        for c in all_fl:
            r[c + ' Units'] = s['units'].get(c)
        r['Gate Fraction'] = s['Gate Fraction']
        r['Note'] = s.get('Note')
        srow.append(r)
    scols = ['ID', 'Instrument ID', 'Beads ID', 'File Path'] + [c + ' Units' for c in all_fl] + ['Gate Fraction', 'Note']
    samples = pd.DataFrame(srow, columns=scols).set_index('ID')
    return inst, beads, samples
