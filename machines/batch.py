"""C11 (fault sequences over a batch) and C10 (fault-free refinement against the hand
composition) for the Excel-UI processing functions.

System under simulation: excel_ui.process_beads_table / process_samples_table /
add_beads_stats / add_samples_stats / generate_histograms_table over FCS files on the
simulated disk, through the recording open seam (ENOENT injection). Real code everywhere;
bead clustering is the real GMM re-seeded per row through the documented clustering_fxn
plug-in, or (in a stated fraction of runs) a label-oracle stub."""
import copy
import warnings
import zlib

import numpy as np

from machines import Machine, violation
from machines import expgen
from models import fingerprint as fpm
from models import pipeline_ref
from sim import disk as simdisk
from sim import seams
from sim.oplog import OpLog
from sim.shrink import list_reductions


def sample_digest(s):
    return fpm.digest(fpm.sample_state(s, exact=True, with_acq=True))


class Experiment(object):
    """Materialises an experiment on the simulated disk and drives the real workflow."""

    def __init__(self, F, exp, seed, stub_clustering=False, tag='exp'):
        self.F = F
        self.X = F.excel_ui
        self.exp = exp
        self.seed = seed
        self.stub = stub_clustering
        self.dk = simdisk.SimDisk(tag)
        self.io_events = []
        self.enoent = set()
        for name, desc in sorted(exp['files'].items()):
            self.dk.write(name, expgen.file_bytes(desc))
            self.dk.materialise(name)
        self.eacces = set()
        for s in exp['samples']:
            if s.get('fault') == 'enoent_at_open':
                self.enoent.add(s['File Path'].split('/')[-1])
            if s.get('fault') == 'eacces_at_open':
                self.eacces.add(s['File Path'].split('/')[-1])
        import os as _os
        for dname in exp.get('dirs', []):
            _os.makedirs(_os.path.join(self.dk.root, dname), exist_ok=True)
        self.base_dir = self.dk.root
        self.inst_t, self.beads_t, self.samples_t = expgen.tables(exp)

    def close(self):
        self.dk.teardown()

    def clustering(self):
        F = self.F
        seed = self.seed
        if self.stub:
            def stub(data, n_clusters, **kw):
                a = np.asarray(data.view(np.ndarray), dtype=float)
                order = np.argsort(a[:, 0], kind='stable')
                labels = np.zeros(a.shape[0], dtype=int)
                # split at the largest gaps of the first clustering channel (label oracle for well separated beads)
                v = a[order, 0]
                gaps = np.argsort(np.diff(v))[::-1][:n_clusters - 1]
                cuts = np.sort(gaps) + 1
                lab = np.zeros(len(v), dtype=int)
                for c in cuts:
                    lab[c:] += 1
                labels[order] = lab
                return labels
            return stub

        def seeded_gmm(data, n_clusters, **kw):
            seams.seed_global_rng(zlib.crc32(np.ascontiguousarray(data.view(np.ndarray)).tobytes()) ^ seed)
            return np.array(F.mef.clustering_gmm(data, n_clusters, **kw))
        return seeded_gmm

    def call(self, fn, *a, **kw):
        """one call into the workflow under the I/O seam; returns ('ok', result) | ('exc', exception)"""
        seam = seams.OpenSeam(self.io_events, root=self.base_dir, faults={'enoent': self.enoent, 'eacces': self.eacces})
        with seams.patched(self.F.io, 'open', seam):
            with warnings.catch_warnings():
                warnings.simplefilter('ignore')
                try:
                    r = fn(*a, **kw)
                    out = ('ok', r)
                except Exception as e:
                    out = ('exc', e)
        self.fired = getattr(self, 'fired', []) + seam.fired
        seam.close_leaked()
        return out

    def beads(self, table=None, fresh=False):
        t = self.beads_t if table is None else table
        inst_t = self.inst_t
        if fresh:
            # reference (single-row) runs read tables rebuilt from the experiment description, so that nothing the
            # batch may have written into its input tables reaches them
            inst_t, b0, _ = expgen.tables(self.exp)
            t = b0.loc[list(t.index)]
        return self.call(self.X.process_beads_table, t, inst_t, base_dir=self.base_dir, full_output=True,
                         get_transform_fxn_kwargs={'clustering_fxn': self.clustering()})

    def samples(self, fx, beads_t, table=None, fresh=False):
        t = self.samples_t if table is None else table
        inst_t = self.inst_t
        if fresh:
            inst_t, _, s0 = expgen.tables(self.exp)
            t = s0.loc[list(t.index)]
            beads_t = beads_t.copy(deep=True)
        return self.call(self.X.process_samples_table, t, inst_t, mef_transform_fxns=fx, beads_table=beads_t,
                         base_dir=self.base_dir)


def in_forked_child(fn):
    """Runs fn() in a child forked from the current process state and returns its (picklable) result. Reference
    computations run this way so that they neither see nor leave process-level state (module caches, memoised
    parameters) shared with the workflow run they are compared with."""
    import os
    import pickle
    r, w = os.pipe()
    pid = os.fork()
    if pid == 0:
        code = 0
        try:
            os.close(r)
            try:
                res = ('ok', fn())
            except BaseException as e:            # noqa: B902 - everything must travel back
                res = ('exc', '%s: %s' % (type(e).__name__, e))
            try:
                blob = pickle.dumps(res, protocol=4)
            except Exception as e:
                blob = pickle.dumps(('exc', 'result not picklable: %s' % e), protocol=4)
            with os.fdopen(w, 'wb') as f:
                f.write(blob)
        except BaseException:
            code = 3
        finally:
            os._exit(code)
    os.close(w)
    with os.fdopen(r, 'rb') as f:
        blob = f.read()
    os.waitpid(pid, 0)
    if not blob:
        raise RuntimeError('reference child died without an answer')
    return pickle.loads(blob)


def stat_equal(a, b):
    """bit-exact for numbers, NaN == NaN, '' == ''"""
    if isinstance(a, str) or isinstance(b, str):
        return a == b
    def empty(x):
        return x is None or (isinstance(x, float) and x != x)
    if empty(a) or empty(b):
        return empty(a) and empty(b)         # an absent value is written as an empty (NaN) cell
    try:
        fa, fb = float(a), float(b)
    except (TypeError, ValueError):
        return repr(a) == repr(b)
    if fa != fa and fb != fb:
        return True
    return fa == fb


def units_class(units):
    return '+'.join(sorted({(u or '').strip().lower() for u in units.values() if u})) or 'none'


class _BatchBase(Machine):
    per_run_timeout = 1500
    real_components = ['excel_ui.process_beads_table / process_samples_table / add_*_stats / generate_histograms_table (real)',
                       'FlowCal.io / transform / gate / stats / mef underneath (real)', 'file I/O on tmpfs through the open seam (real)']
    not_modelled = ['truncated FCS files, unknown Beads ID, non-string unit cells (not among the documented row faults)',
                    'plots (see C15)']

    def summarise(self, case):
        e = case['exp']
        return {'instruments': [i['ID'] for i in e['instruments']],
                'beads': [{k: b[k] for k in ('ID', 'Instrument ID', 'File Path', 'Gate Fraction', 'mef', 'fault')} for b in e['beads']],
                'samples': [{k: s[k] for k in ('ID', 'Instrument ID', 'Beads ID', 'File Path', 'Gate Fraction', 'units', 'fault')}
                            for s in e['samples']],
                'files': {k: {kk: vv for kk, vv in v.items() if kk != 'inst'} for k, v in e['files'].items()},
                'stub_clustering': case.get('stub')}

    def shrink_candidates(self, case):
        e = case['exp']
        for ss in list_reductions(e['samples'], 1):
            c = copy.deepcopy(case)
            c['exp']['samples'] = ss
            yield c
        used = {s['Beads ID'] for s in e['samples'] if s['Beads ID']}
        for i, b in enumerate(e['beads']):
            if b['ID'] not in used:
                c = copy.deepcopy(case)
                del c['exp']['beads'][i]
                yield c
        for i, s in enumerate(e['samples']):
            if len(s['units']) > 1 and not s['fault']:
                for ch in list(s['units']):
                    c = copy.deepcopy(case)
                    del c['exp']['samples'][i]['units'][ch]
                    yield c
        if not case.get('stub'):
            c = copy.deepcopy(case)
            c['stub'] = True
            yield c


# ===========================================================================
# C11
# ===========================================================================

class C11Machine(_BatchBase):
    prop = 'C11'
    level = 'fault_enumeration'
    rule = ('each run is one generated experiment (1..3 instruments, 0..2 bead rows, 1..5 cell-sample rows over synthetic FCS '
            'files) in which each row carries no fault or one documented fault kind (file not found on disk / ENOENT at the '
            'open seam, < 400 events, gate fraction < 0 or > 1, unrecognised units, calibration unavailable because the bead '
            'row failed or has no MEF values, channel without standard curve, beads from another instrument, other '
            'amplification type, other detector voltage, unequal numbers of MEF values), rows in seeded order; healthy rows '
            'are compared bit-exactly with their single-row runs; distinct = distinct (table shape, fault assignment in row '
            'order, units classes, data types) tuples')
    stubbed_components = ['bead clustering: real GMM (global RNG re-seeded per row by the simulator) in ~70% of runs, '
                          'label-oracle stub in ~30%']
    assumptions = ['single-row reference runs use the same calibration objects as the batch',
                   'bead rows: only the gated sample is compared with the single-row run (the property speaks about cell-sample rows)']

    def plan(self, tier):
        if tier == 'quick':
            return {'runs': 260, 'budget_s': 150, 'batch': 2, 'shrink_s': 240}
        return {'runs': 9000, 'budget_s': 1800, 'batch': 2, 'shrink_s': 400}

    MATRIX = [None] + expgen.SAMPLE_FAULTS

    def generate(self, rng, tier, index):
        nm = len(self.MATRIX)
        if tier == 'thorough' and index < 2 * nm * nm:
            # exhaustive: every ordered assignment of {no fault, each documented fault kind} to a two-row samples table,
            # in a fixed context that makes every kind expressible (healthy calibrated beads, failed beads, beads without
            # MEF values, beads of another instrument); second half: the same with a healthy third row in front
            i = index % (nm * nm)
            f1, f2 = self.MATRIX[i // nm], self.MATRIX[i % nm]
            rows = [{'inst': 0, 'fault': f1}, {'inst': 0, 'fault': f2}]
            if index >= nm * nm:
                rows = [{'inst': 0, 'fault': None}] + rows
            plan = {'n_inst': 2,
                    'beads': [{'inst': 0, 'fault': None, 'mef': 1}, {'inst': 0, 'fault': 'few_events', 'mef': 1},
                              {'inst': 0, 'fault': None, 'mef': 0}, {'inst': 1, 'fault': None, 'mef': 1}],
                    'samples': rows}
            exp = expgen.gen_experiment(rng, faults=False, small=True, plan=plan)
            want = [r['fault'] for r in rows]
            got = [s['fault'] for s in exp['samples']]
            return {'exp': exp, 'stub': True, 'seed': rng.randint(0, 2 ** 31 - 1), 'matrix': [want, got]}
        if index % 40 == 39:
            exp = expgen.gen_experiment(rng, faults=False, max_samples=1, max_beads=1)
            exp['samples'] = []
            if rng.chance(0.5):
                exp['beads'] = []
            return {'exp': exp, 'stub': True, 'seed': rng.randint(0, 2 ** 31 - 1)}
        small = tier == 'quick'
        exp = expgen.gen_experiment(rng, faults=True, max_samples=3 if small else 5, max_beads=1 if small and rng.chance(0.7) else 2,
                                    small=small)
        if index % 13 == 5:
            # replicate-pair arm (stream-neutral): two healthy float rows, the second the first a fraction of a percent off,
            # so that anything a row leaves behind that is keyed by nearly equal derived parameters reaches the next row
            expgen.add_replicate_pair(exp, index)
        return {'exp': exp, 'stub': rng.chance(0.3), 'seed': rng.randint(0, 2 ** 31 - 1),
                'second_pass': rng.randint(0, 5) if rng.chance(0.35) else None}

    def execute(self, case):
        import FlowCal as F
        import pandas as pd
        log = OpLog()
        out = {'violations': [], 'sigs': set(), 'faults': {}, 'probes': {}, 'evals': 0, 'components': {}}
        V = out['violations']
        exp = case['exp']
        X = F.excel_ui

        def bump(d, k, n=1):
            d[k] = d.get(k, 0) + n

        bump(out['components'], 'clustering:stub' if case.get('stub') else 'clustering:real-gmm')
        E = Experiment(F, exp, case['seed'], stub_clustering=case.get('stub'), tag='c11')
        try:
            bfault = {b['ID']: b['fault'] for b in exp['beads']}
            sfault = {s['ID']: s['fault'] for s in exp['samples']}
            for f in list(bfault.values()):
                if f:
                    bump(out['faults'], 'beads:' + f)
            for f in sfault.values():
                if f:
                    bump(out['faults'], 'sample:' + f)
            # ---- beads ----------------------------------------------------
            kb, rb = E.beads()
            out['evals'] += 1
            if kb == 'exc':
                culprit = 'unknown'
                for b in exp['beads']:
                    k1, r1 = E.beads(E.beads_t.loc[[b['ID']]], fresh=True)
                    if k1 == 'exc' and type(r1) is type(rb):
                        culprit = b['fault'] or 'healthy-row'
                        break
                V.append(violation('C11/batch-aborted', 'beads/%s/%s' % (type(rb).__name__, culprit),
                                   'process_beads_table raised %s: %s' % (type(rb).__name__, str(rb)[:200])))
                log.add('beads-aborted', type(rb).__name__)
                out['digest'] = log.digest()
                return out
            bsamples, fx, mo = rb
            if list(bsamples.keys()) != list(E.beads_t.index) or list(fx.keys()) != list(E.beads_t.index):
                V.append(violation('C11/keys', 'beads', 'result keys %s, table index %s' % (list(bsamples), list(E.beads_t.index))))
            if not exp['beads'] and (len(bsamples) or len(fx)):
                V.append(violation('C11/empty-table', 'beads', 'empty beads table gave %d results' % len(bsamples)))
            for b in exp['beads']:
                r = bsamples.get(b['ID'])
                is_err = isinstance(r, X.ExcelUIException)
                log.add('bead-row', b['ID'], b['fault'], 'error' if is_err else sample_digest(r), str(r)[:80] if is_err else None)
                if b['fault'] and not is_err:
                    V.append(violation('C11/row-not-error', 'beads/' + b['fault'],
                                       'bead row %s with fault %s did not record an error' % (b['ID'], b['fault'])))
                if not b['fault'] and is_err:
                    # not a documented fault: only demand the same outcome as in the single-row run
                    k1, r1 = E.beads(E.beads_t.loc[[b['ID']]], fresh=True)
                    if k1 == 'exc' or not isinstance(r1[0][b['ID']], X.ExcelUIException) or str(r1[0][b['ID']]) != str(r):
                        V.append(violation('C11/row-differs-from-alone', 'beads/error-vs-result',
                                           'bead row %s: batch gives %r, alone %r' % (b['ID'], r, r1)))
                    else:
                        bump(out['probes'], 'undocumented_row_error_same_alone')
                if is_err and fx.get(b['ID']) is not None:
                    V.append(violation('C11/row-not-error', 'beads/transform-for-error-row', b['ID']))
            # healthy bead rows: gated sample equals the single-row run
            for b in exp['beads']:
                if b['fault'] or len(exp['beads']) < 2 or isinstance(bsamples.get(b['ID']), X.ExcelUIException):
                    continue
                k1, r1 = E.beads(E.beads_t.loc[[b['ID']]], fresh=True)
                out['evals'] += 1
                if k1 == 'exc' or sample_digest(r1[0][b['ID']]) != sample_digest(bsamples[b['ID']]):
                    V.append(violation('C11/row-differs-from-alone', 'beads',
                                       'bead row %s differs from its single-row run' % b['ID']))
            beads_t = E.beads_t.copy()
            ks, rs = E.call(X.add_beads_stats, beads_t, bsamples, mo)
            if ks == 'exc':
                V.append(violation('C11/batch-aborted', 'add_beads_stats/%s' % type(rs).__name__, str(rs)[:200]))
                out['digest'] = log.digest()
                return out
            for b in exp['beads']:
                note = beads_t.loc[b['ID'], 'Analysis Notes']
                if isinstance(bsamples.get(b['ID']), X.ExcelUIException):
                    if not str(note).startswith('ERROR:'):
                        V.append(violation('C11/error-row-stats', 'beads/note', 'bead row %s note %r' % (b['ID'], note)))
                    for col in beads_t.columns:
                        if col in E.beads_t.columns or col == 'Analysis Notes':
                            continue
                        v = beads_t.loc[b['ID'], col]
                        if not (v == '' or (isinstance(v, float) and v != v) or pd.isnull(v)):
                            V.append(violation('C11/error-row-stats', 'beads/' + col.split(' ', 1)[-1],
                                               'bead row %s has %s=%r' % (b['ID'], col, v)))
            # ---- samples --------------------------------------------------
            # the single-row reference runs get their own copies of the calibration functions, taken before the batch
            # touched them (state left inside a shared transformation function must not reach the reference)
            try:
                fx0 = copy.deepcopy(fx)
            except Exception:
                fx0 = None
                bump(out['probes'], 'calibration_functions_not_copyable')
            beads_t0 = beads_t.copy(deep=True)

            def fresh_fx():
                return copy.deepcopy(fx0) if fx0 is not None else fx

            # isolation references: every row without a documented fault is processed alone in its own child process,
            # forked HERE - before the batch runs - so that each single-row run starts from the process state the batch
            # starts from and shares nothing with it or with the other single-row runs
            def alone_run(sid):
                k1, r1 = E.samples(fresh_fx(), beads_t0, E.samples_t.loc[[sid]], fresh=True)
                if k1 == 'exc':
                    return ('aborts', repr(r1)[:300])
                a1 = r1.get(sid)
                if isinstance(a1, X.ExcelUIException):
                    return ('rowerr', str(a1))
                st1 = expgen.tables(exp)[2].loc[[sid]].copy()
                k2, r2 = E.call(X.add_samples_stats, st1, {sid: a1})
                stats = ('exc', str(r2)[:200]) if k2 == 'exc' else ('ok', {c: st1.loc[sid, c] for c in st1.columns})
                return ('ok', fpm.sample_state(a1), stats)
            alone_res = {}
            for s in exp['samples']:
                if not s['fault']:
                    kk, rr = in_forked_child(lambda sid=s['ID']: alone_run(sid))
                    alone_res[s['ID']] = rr if kk == 'ok' else ('aborts', rr)
                    out['evals'] += 1
            k, r = E.samples(fx, beads_t)
            out['evals'] += 1
            if k == 'exc':
                culprit = 'unknown'
                for s in exp['samples']:
                    k1, r1 = E.samples(fresh_fx(), beads_t0, E.samples_t.loc[[s['ID']]], fresh=True)
                    if k1 == 'exc' and type(r1) is type(r):
                        culprit = s['fault'] or 'healthy-row'
                        break
                V.append(violation('C11/batch-aborted', 'samples/%s/%s' % (type(r).__name__, culprit),
                                   'process_samples_table raised %s: %s' % (type(r).__name__, str(r)[:200])))
                log.add('samples-aborted', type(r).__name__)
                out['digest'] = log.digest()
                return out
            samples = r
            if list(samples.keys()) != list(E.samples_t.index):
                V.append(violation('C11/keys', 'samples', 'result keys %s, table index %s' % (list(samples), list(E.samples_t.index))))
            if not exp['samples'] and len(samples):
                V.append(violation('C11/empty-table', 'samples', 'empty samples table gave %d results' % len(samples)))
            alone = {}
            for s in exp['samples']:
                got = samples.get(s['ID'])
                is_err = isinstance(got, X.ExcelUIException)
                log.add('sample-row', s['ID'], s['fault'], 'error' if is_err else sample_digest(got), str(got)[:80] if is_err else None)
                if s['fault'] and not is_err:
                    V.append(violation('C11/row-not-error', 'sample/' + s['fault'],
                                       'row %s with fault %s did not record an error (got %s)' % (s['ID'], s['fault'], type(got).__name__)))
                    continue
                if s['fault']:
                    continue
                # isolation: the same row processed alone (in its own child process, see above)
                ar = alone_res[s['ID']]
                if ar[0] == 'aborts':
                    V.append(violation('C11/row-differs-from-alone', 'sample/alone-aborts',
                                       'row %s aborts when processed alone: %s' % (s['ID'], ar[1])))
                    continue
                if is_err or ar[0] == 'rowerr':
                    # a row without a documented fault may still fail (e.g. a degenerate calibration gates every
                    # event out); the property then only demands the same outcome as in its single-row run
                    if not (is_err and ar[0] == 'rowerr' and ar[1] == str(got)):
                        V.append(violation('C11/row-differs-from-alone', 'sample/error-vs-result',
                                           'row %s: batch gives %r, single-row run gives %r' % (s['ID'], got, ar[1])))
                    else:
                        bump(out['probes'], 'undocumented_row_error_same_alone')
                    continue
                alone[s['ID']] = ar[2]
                a, bb = ar[1], fpm.sample_state(got)
                df = fpm.diff_fields(a, bb)
                if df:
                    V.append(violation('C11/row-differs-from-alone', 'sample/' + '+'.join(df),
                                       'row %s in the batch differs from its single-row run in %s (faults in table: %s)' % (
                                           s['ID'], df, [x for x in sfault.values() if x])))
                bump(out['probes'], 'healthy_rows_compared_with_single_row_run')
            # ---- statistics and histograms ---------------------------------
            st = E.samples_t.copy()
            ks, rs = E.call(X.add_samples_stats, st, samples)
            if ks == 'exc':
                V.append(violation('C11/batch-aborted', 'add_samples_stats/%s' % type(rs).__name__, str(rs)[:300]))
                out['digest'] = log.digest()
                return out
            kh, hist = E.call(X.generate_histograms_table, st, samples)
            if kh == 'exc':
                V.append(violation('C11/batch-aborted', 'generate_histograms_table/%s' % type(hist).__name__, str(hist)[:300]))
                out['digest'] = log.digest()
                return out
            new_cols = [c for c in st.columns if c not in E.samples_t.columns]
            for s in exp['samples']:
                note = st.loc[s['ID'], 'Analysis Notes']
                got = samples[s['ID']]
                if isinstance(got, X.ExcelUIException):
                    if not str(note).startswith('ERROR:'):
                        V.append(violation('C11/error-row-stats', 'sample/note', 'row %s note %r' % (s['ID'], note)))
                    for col in new_cols:
                        if col == 'Analysis Notes':
                            continue
                        v = st.loc[s['ID'], col]
                        if not (v == '' or pd.isnull(v)):
                            V.append(violation('C11/error-row-stats', 'sample/' + col.split(' ', 1)[-1],
                                               'error row %s has %s=%r' % (s['ID'], col, v)))
                    if len(hist) and s['ID'] in hist.index.get_level_values(0):
                        V.append(violation('C11/error-row-stats', 'sample/histogram', 'error row %s has histogram rows' % s['ID']))
                    bump(out['probes'], 'error_rows_checked')
                elif s['ID'] in alone:
                    # same statistics as in the single-row run
                    k2, st1 = alone[s['ID']]
                    if k2 == 'exc':
                        V.append(violation('C11/healthy-stats-differ', 'alone-raises', st1))
                        continue
                    for col in new_cols:
                        if not stat_equal(st.loc[s['ID'], col], st1.get(col)):
                            V.append(violation('C11/healthy-stats-differ', col.split(' ', 1)[-1] if col not in (
                                'Analysis Notes', 'Number of Events', 'Acquisition Time (s)') else col,
                                'row %s: %s = %r in the batch, %r alone' % (s['ID'], col, st.loc[s['ID'], col], st1.get(col))))
                            break
            # ---- second pass: the previous OUTPUT table is processed again after a file has disappeared ------------
            if case.get('second_pass') is not None and not V:
                healthy = [s_ for s_ in exp['samples'] if not isinstance(samples[s_['ID']], X.ExcelUIException)
                           and s_['File Path'] in exp['files']]
                if healthy:
                    victim = healthy[case['second_pass'] % len(healthy)]
                    others = [s_ for s_ in exp['samples'] if s_['File Path'] == victim['File Path']]
                    E.dk.remove(victim['File Path'])
                    bump(out['faults'], 'file_removed_between_passes')
                    k2, r2 = E.samples(fx, beads_t, st.copy())
                    out['evals'] += 1
                    if k2 == 'exc':
                        V.append(violation('C11/batch-aborted', 'second-pass/samples/%s' % type(r2).__name__, str(r2)[:200]))
                    else:
                        st2 = st.copy()
                        k3, r3 = E.call(X.add_samples_stats, st2, r2)
                        if k3 == 'exc':
                            V.append(violation('C11/batch-aborted', 'second-pass/add_samples_stats/%s' % type(r3).__name__, str(r3)[:200]))
                        else:
                            gone = {o['ID'] for o in others}
                            for s_ in exp['samples']:
                                sid = s_['ID']
                                if sid in gone:
                                    if not isinstance(r2[sid], X.ExcelUIException) or not str(st2.loc[sid, 'Analysis Notes']).startswith('ERROR:'):
                                        V.append(violation('C11/row-not-error', 'second-pass/file_not_found',
                                                           'row %s whose file disappeared is not reported as an error' % sid))
                                    for col in new_cols:
                                        if col == 'Analysis Notes':
                                            continue
                                        v_ = st2.loc[sid, col]
                                        if not (v_ == '' or pd.isnull(v_)):
                                            V.append(violation('C11/error-row-stats', 'second-pass/' + col.split(' ', 1)[-1],
                                                               'row %s failed in the second pass but still shows %s=%r' % (sid, col, v_)))
                                            break
                                else:
                                    for col in new_cols:
                                        if not stat_equal(st.loc[sid, col], st2.loc[sid, col]):
                                            V.append(violation('C11/healthy-stats-differ', 'second-pass/' + (col.split(' ', 1)[-1]),
                                                               'row %s: %s = %r in the first pass, %r in the second' % (
                                                                   sid, col, st.loc[sid, col], st2.loc[sid, col])))
                                            break
                            bump(out['probes'], 'second_pass_on_output_table')
            nf = sum(1 for x in sfault.values() if x)
            out['sigs'].add('%d/%d|%s|%s|%s|%s' % (
                len(exp['beads']), len(exp['samples']), ','.join(str(b['fault']) for b in exp['beads']),
                ','.join(str(s['fault']) for s in exp['samples']),
                ','.join(units_class(s['units']) for s in exp['samples']),
                ','.join(exp['files'].get(s['File Path'], {}).get('datatype', '-') for s in exp['samples'])))
            if nf and nf < len(exp['samples']):
                bump(out['probes'], 'tables_with_faulted_and_healthy_rows')
            for kind, rel in getattr(E, 'fired', []):
                bump(out['faults'], 'seam:' + kind)
        finally:
            E.close()
        out['digest'] = log.digest()
        out['summary'] = {'violations': len(V)}
        return out


# ===========================================================================
# C10
# ===========================================================================

class C10Machine(_BatchBase):
    prop = 'C10'
    level = 'exploration'
    rule = ('each run is one generated experiment - three in four fault-free, one in four with documented row faults next '
            'to the compared rows (those rows themselves are skipped) - (1..3 instruments, 0..2 bead rows, 1..4 cell-sample rows; per-channel '
            'units from {empty, Channel, RFI, a.u., au, MEF} in letter-case variants; gate fractions; integer and float data); '
            'every returned sample is compared bit-exactly with the hand composition of the documented steps using the '
            'calibration objects the real bead processing returned, every statistics column with FlowCal.stats on that sample '
            '(geometric ones on positive events, note iff non-positive events exist), every histogram row with np.histogram over '
            'the library bin edges; distinct = distinct (table shape, units classes per row, data types) tuples')
    stubbed_components = C11Machine.stubbed_components
    assumptions = ['for letter-case variants of "channel" either histogram scale is accepted (the documentation does not say)',
                   'the hand composition uses the calibration functions the real bead processing returned (C02 is not claimed)']

    def plan(self, tier):
        if tier == 'quick':
            return {'runs': 170, 'budget_s': 150, 'batch': 2, 'shrink_s': 240}
        return {'runs': 10000, 'budget_s': 1800, 'batch': 2, 'shrink_s': 400}

    def generate(self, rng, tier, index):
        small = tier == 'quick'
        # every fourth experiment also contains rows with documented faults: the healthy rows around them must still
        # equal the hand composition (the faulty rows themselves are C11's business and are skipped here)
        exp = expgen.gen_experiment(rng, faults=(index % 4 == 3), max_samples=3 if small else 4,
                                    max_beads=1 if small and rng.chance(0.7) else 2, small=small)
        return {'exp': exp, 'stub': rng.chance(0.3), 'seed': rng.randint(0, 2 ** 31 - 1)}

    def execute(self, case):
        import FlowCal as F
        import pandas as pd
        log = OpLog()
        out = {'violations': [], 'sigs': set(), 'faults': {}, 'probes': {}, 'evals': 0, 'components': {}}
        V = out['violations']
        exp = case['exp']
        X = F.excel_ui

        def bump(d, k, n=1):
            d[k] = d.get(k, 0) + n

        bump(out['components'], 'clustering:stub' if case.get('stub') else 'clustering:real-gmm')
        E = Experiment(F, exp, case['seed'], stub_clustering=case.get('stub'), tag='c10')
        insts = {i['ID']: i for i in exp['instruments']}
        try:
            kb, rb = E.beads()
            out['evals'] += 1
            if kb == 'exc':
                V.append(violation('C10/raises', 'process_beads_table/%s' % type(rb).__name__, str(rb)[:300]))
                out['digest'] = log.digest()
                return out
            bsamples, fx, mo = rb
            beads_t = E.beads_t.copy()
            ks, rs = E.call(X.add_beads_stats, beads_t, bsamples, mo)
            if ks == 'exc':
                V.append(violation('C10/raises', 'add_beads_stats/%s' % type(rs).__name__, str(rs)[:300]))
                out['digest'] = log.digest()
                return out
            for b in exp['beads']:
                if b.get('fault') is not None:
                    bump(out['probes'], 'faulty_rows_next_to_compared_rows')
                    continue
                if isinstance(bsamples[b['ID']], X.ExcelUIException):
                    V.append(violation('C10/row-error', 'beads', 'well-formed bead row %s: %s' % (b['ID'], bsamples[b['ID']])))
                else:
                    # documented bead steps by hand: all channels to RFI, trim, de-saturate scatter, density gate
                    inst = insts[b['Instrument ID']]
                    sc = [inst['fsc'], inst['ssc']]
                    h = F.io.FCSData(E.dk.path(b['File Path']))
                    h = F.transform.to_rfi(h, sc + list(inst['fl']))
                    h = F.gate.start_end(h, num_start=250, num_end=100)
                    if h.data_type == 'I':
                        h = F.gate.high_low(h, channels=sc)
                    h = F.gate.density2d(h, channels=sc, gate_fraction=b['Gate Fraction'], xscale='logicle', yscale='logicle', sigma=5.)
                    df = fpm.diff_fields(fpm.sample_state(h), fpm.sample_state(bsamples[b['ID']]))
                    if df:
                        V.append(violation('C10/beads-differ-from-hand', '+'.join(df), 'bead row %s' % b['ID']))
                    if b['mef'] and fx[b['ID']] is None:
                        V.append(violation('C10/no-calibration', 'beads', 'bead row %s with MEF values gave no transformation' % b['ID']))
            try:
                fx0 = copy.deepcopy(fx)            # the hand composition uses copies taken before the workflow ran
            except Exception:
                fx0 = fx
                bump(out['probes'], 'calibration_functions_not_copyable')

            # the hand composition of every compared row is computed in its own child process forked HERE, before the
            # workflow runs: it starts from the process state the workflow starts from and shares nothing with it
            def hand_row(s):
                inst = insts[s['Instrument ID']]
                mf = copy.deepcopy(fx0.get(s['Beads ID'])) if s['Beads ID'] else None
                res = {'herr': None}
                with warnings.catch_warnings():
                    warnings.simplefilter('ignore')
                    try:
                        hand, rep = pipeline_ref.hand_sample(F, E.dk.path(s['File Path']), inst, s['units'], s['Gate Fraction'], mf)
                    except Exception as e:
                        res['herr'] = str(e)
                        return res
                    res['state'] = fpm.sample_state(hand)
                    res['shape'] = tuple(hand.shape)
                    res['acq'] = hand.acquisition_time
                    res['ch'] = {}
                    for ch in inst['fl']:
                        u = s['units'].get(ch)
                        if u is None:
                            continue
                        c = {}
                        try:
                            c['hs'], c['nonpos'] = pipeline_ref.hand_stats(F, hand, ch)
                        except Exception as e:
                            c['exc'] = '%s: %s' % (type(e).__name__, str(e)[:200])
                            res['ch'][ch] = c
                            continue
                        c['dvolt'] = hand.detector_voltage(ch)
                        c['amp'] = 'Log' if hand.amplification_type(ch)[0] else 'Linear'
                        c['hist'] = []
                        col = np.asarray(hand[:, ch])
                        for sc, edges, centers, counts in pipeline_ref.hand_hist(F, hand, ch, u):
                            inside = int(np.sum((col >= edges[0]) & (col <= edges[-1])))
                            c['hist'].append((sc, np.asarray(centers, dtype=float), np.asarray(counts, dtype=float), inside))
                        res['ch'][ch] = c
                return res
            hand_res = {}
            for s in exp['samples']:
                if s.get('fault') is None:
                    kk, rr = in_forked_child(lambda s=s: hand_row(s))
                    hand_res[s['ID']] = rr if kk == 'ok' else {'herr': 'hand composition child failed: %s' % rr, 'child_failed': True}
            k, r = E.samples(fx, beads_t)
            out['evals'] += 1
            if k == 'exc':
                V.append(violation('C10/raises', 'process_samples_table/%s' % type(r).__name__, str(r)[:300]))
                out['digest'] = log.digest()
                return out
            samples = r
            st = E.samples_t.copy()
            ks, rs = E.call(X.add_samples_stats, st, samples)
            if ks == 'exc':
                V.append(violation('C10/raises', 'add_samples_stats/%s' % type(rs).__name__, str(rs)[:300]))
                out['digest'] = log.digest()
                return out
            kh, hist = E.call(X.generate_histograms_table, st, samples)
            if kh == 'exc':
                V.append(violation('C10/raises', 'generate_histograms_table/%s' % type(hist).__name__, str(hist)[:300]))
                out['digest'] = log.digest()
                return out
            for s in exp['samples']:
                if s.get('fault') is not None:
                    bump(out['probes'], 'faulty_rows_next_to_compared_rows')
                    continue
                got = samples[s['ID']]
                inst = insts[s['Instrument ID']]
                uc = units_class(s['units'])
                dt = exp['files'][s['File Path']].get('datatype', 'I')
                mf = fx0.get(s['Beads ID']) if s['Beads ID'] else None
                H = hand_res[s['ID']]
                if H.get('child_failed'):
                    raise RuntimeError(H['herr'])
                herr = H['herr']
                if isinstance(got, X.ExcelUIException) or herr is not None:
                    # e.g. a degenerate calibration gates every event out: the workflow must then report what the hand
                    # composition raises
                    if not (isinstance(got, X.ExcelUIException) and herr is not None and herr == str(got)):
                        V.append(violation('C10/row-error', 'sample/%s/%s' % (uc, dt),
                                           'well-formed row %s: workflow gives %r, hand composition %r' % (s['ID'], got, herr)))
                    else:
                        bump(out['probes'], 'row_error_equals_hand_composition_error')
                    continue
                a, bb = H['state'], fpm.sample_state(got)
                df = fpm.diff_fields(a, bb)
                log.add('sample', s['ID'], sample_digest(got), df)
                if df:
                    V.append(violation('C10/sample-differs-from-hand', '%s/%s/%s' % (uc, dt, '+'.join(df)),
                                       'row %s (units %s, fraction %s): differs from the hand composition in %s; shapes %s vs %s' % (
                                           s['ID'], s['units'], s['Gate Fraction'], df, got.shape, H['shape'])))
                    continue
                # statistics
                if st.loc[s['ID'], 'Number of Events'] != H['shape'][0]:
                    V.append(violation('C10/stat', 'Number of Events', 'row %s: %r vs %r' % (s['ID'], st.loc[s['ID'], 'Number of Events'], H['shape'][0])))
                if not stat_equal(st.loc[s['ID'], 'Acquisition Time (s)'], H['acq']):
                    V.append(violation('C10/stat', 'Acquisition Time (s)', 'row %s: %r vs %r' % (
                        s['ID'], st.loc[s['ID'], 'Acquisition Time (s)'], H['acq'])))
                note = st.loc[s['ID'], 'Analysis Notes']
                any_nonpos = False
                for ch in inst['fl']:
                    u = s['units'].get(ch)
                    if u is None:
                        for suffix, _ in pipeline_ref.STAT_COLS:
                            col = '%s %s' % (ch, suffix)
                            if col in st.columns and not pd.isnull(st.loc[s['ID'], col]):
                                V.append(violation('C10/stat', suffix + '/no-units', 'row %s: %s filled without units' % (s['ID'], col)))
                        continue
                    C = H['ch'][ch]
                    if 'exc' in C:
                        V.append(violation('C10/raises', 'stats-by-hand/%s' % C['exc'].split(':')[0], C['exc']))
                        continue
                    hs, nonpos = C['hs'], C['nonpos']
                    any_nonpos = any_nonpos or nonpos
                    for suffix, val in hs.items():
                        col = '%s %s' % (ch, suffix)
                        if not stat_equal(st.loc[s['ID'], col], val):
                            V.append(violation('C10/stat', suffix, 'row %s: %s = %r, FlowCal.stats on the gated sample gives %r' % (
                                s['ID'], col, st.loc[s['ID'], col], val)))
                    if nonpos and ('Geometric statistics for channel %s' % ch) not in str(note):
                        V.append(violation('C10/note', 'missing', 'row %s channel %s has non-positive events but no note: %r' % (s['ID'], ch, note)))
                    if not nonpos and ('Geometric statistics for channel %s' % ch) in str(note):
                        V.append(violation('C10/note', 'spurious', 'row %s channel %s: %r' % (s['ID'], ch, note)))
                    dvolt = st.loc[s['ID'], ch + ' Detector Volt.']
                    if not stat_equal(dvolt, C['dvolt']):
                        V.append(violation('C10/stat', 'Detector Volt.', 'row %s: %r vs %r' % (s['ID'], dvolt, C['dvolt'])))
                    if st.loc[s['ID'], ch + ' Amp. Type'] != C['amp']:
                        V.append(violation('C10/stat', 'Amp. Type', 'row %s: %r vs %r' % (s['ID'], st.loc[s['ID'], ch + ' Amp. Type'], C['amp'])))
                    # histogram
                    try:
                        cen_row = hist.loc[(s['ID'], ch, 'Bin Centers (%s)' % u)]
                        cnt_row = hist.loc[(s['ID'], ch, 'Counts')]
                    except KeyError:
                        V.append(violation('C10/hist', 'missing-row', 'row %s channel %s units %r' % (s['ID'], ch, u)))
                        continue
                    okh = False
                    why = ''
                    for sc, centers, counts, inside in C['hist']:
                        n = len(counts)
                        gc = np.asarray(cnt_row.values[:n], dtype=float)
                        gcen = np.asarray(cen_row.values[:n], dtype=float)
                        if np.array_equal(gc, counts) and np.array_equal(gcen, centers, equal_nan=True) and \
                                int(gc.sum()) == inside and pd.isnull(cnt_row.values[n:]).all():
                            okh = True
                            break
                        why = 'scale %s: counts equal %s, centers equal %s, sum %s vs events inside %s' % (
                            sc, np.array_equal(gc, counts), np.array_equal(gcen, centers, equal_nan=True),
                            gc.sum(), inside)
                    if not okh:
                        V.append(violation('C10/hist', '%s' % (u.strip().lower()), 'row %s channel %s: %s' % (s['ID'], ch, why)))
                    bump(out['probes'], 'histogram_rows_checked')
                if any_nonpos:
                    bump(out['probes'], 'rows_with_nonpositive_events')
                bump(out['probes'], 'rows_compared_with_hand_composition')
                bump(out['probes'], 'hand_compositions_in_forked_children')
                out['sigs'].add('%s|%s|%s' % (uc, dt, 'mef' if mf is not None and 'mef' in uc else '-'))
            out['sigs'].add('%d/%d|%s|%s' % (len(exp['beads']), len(exp['samples']),
                                             ','.join(units_class(s['units']) for s in exp['samples']),
                                             ','.join(exp['files'].get(s['File Path'], {}).get('datatype', '-')
                                                      for s in exp['samples'])))
        finally:
            E.close()
        out['digest'] = log.digest()
        out['summary'] = {'violations': len(V)}
        return out
