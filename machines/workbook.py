"""C15: a well-formed workbook always yields a complete, faithful output workbook.

System under simulation: excel_ui.run(input_path, output_path, plot, hist_sheet) end to end,
with every seam installed: simulated disk (FCS files and the input workbook, written with
openpyxl directly), recording open seams for FCS and workbook reads, simulated wall clock,
NumPy global RNG owned by the simulator, savefig recorded (dpi knob randomised), bounded
liveness through an interval timer. Oracle over the recorded I/O history and the output.
Separately: arbitrary tables through write_workbook -> read_table."""
import copy
import datetime
import math
import os
import signal
import time as _time
import warnings

import numpy as np

from machines import Machine, violation
from machines import expgen
from models import pipeline_ref
from sim import disk as simdisk
from sim import seams
from sim.oplog import OpLog
from sim.shrink import list_reductions

LIVENESS_S = 420
# strings that pandas' reader treats as missing values by default
NA_STRINGS = {'None', 'NA', 'N/A', 'n/a', 'NULL', 'null', 'nan', 'NaN', '#N/A', '<NA>'}


class Timeout(Exception):
    pass


def _alarm(signum, frame):
    raise Timeout()


def cell_eq(a, b):
    """None == NaN == empty; numbers compared numerically (exactly); everything else by =="""
    def nul(x):
        return x is None or (isinstance(x, float) and x != x)
    if nul(a) or nul(b):
        return nul(a) and nul(b)
    if isinstance(a, bool) or isinstance(b, bool):
        return a == b
    if isinstance(a, (int, float)) and isinstance(b, (int, float)):
        return float(a) == float(b)
    return a == b and type(a) is type(b) or (isinstance(a, str) and isinstance(b, str) and a == b)


def write_input_workbook(path, exp, rng_extra=None):
    """Input workbook written with openpyxl directly (not with FlowCal's writer)."""
    import openpyxl
    inst_t, beads_t, samples_t = expgen.tables(exp)
    wb = openpyxl.Workbook()
    wb.remove(wb.active)
    tables = {}
    for name, t in (('Instruments', inst_t), ('Beads', beads_t), ('Samples', samples_t)):
        ws = wb.create_sheet(name)
        cols = [t.index.name] + list(t.columns)
        ws.append(cols)
        rows = []
        for rid, row in t.iterrows():
            vals = [rid] + [None if (v is None or (isinstance(v, float) and v != v)) else
                            (v.item() if hasattr(v, 'item') else v) for v in row.tolist()]
            ws.append(vals)
            rows.append(vals)
        tables[name] = (cols, rows)
    if exp.get('extra_sheet'):
        ws = wb.create_sheet('Notes')
        ws.append(['free text', 1, 2.5])
    wb.save(path)
    return tables


def read_workbook(path):
    import openpyxl
    wb = openpyxl.load_workbook(path, data_only=True)
    out = {}
    for ws in wb.worksheets:
        rows = [list(r) for r in ws.iter_rows(values_only=True)]
        out[ws.title] = rows
    return wb.sheetnames, out


class C15Machine(Machine):
    prop = 'C15'
    level = 'exploration'
    per_run_timeout = 1700
    rule = ('each run is either (run arm) one generated well-formed experiment written as an input workbook with openpyxl and as '
            'FCS files on the simulated disk, processed by excel_ui.run under the option tuple (plots on/off, histogram sheet '
            'on/off, explicit/default output path) with all seams installed, or (round-trip arm) seeded tables of strings, '
            'integers, floats and empty cells, rows without identifier and duplicated identifiers through write_workbook -> '
            'read_table; thorough also runs the shipped examples/experiment.xlsx; distinct = distinct (arm, option tuple, table '
            'shape, units classes, clustering-channel count) tuples')
    real_components = ['excel_ui.run and everything below it (real)', 'pandas/openpyxl workbook I/O (real, recorded)',
                       'matplotlib Agg rendering when plots are on (real; savefig_dpi knob randomised 20..60)',
                       'scikit-learn GMM (real; global NumPy RNG re-seeded by the simulator before the run)']
    stubbed_components = ['wall clock: FlowCal.excel_ui.time replaced by the simulated clock',
                          'the user: input workbook generated and written with openpyxl']
    not_modelled = ['write-side crashes of the output workbook', 'EIO/ENOSPC during savefig', 'the Tk file dialog (input_path=None)']
    assumptions = ['"About" sheet identified by a title starting with "About"', 'None, NaN and empty cells are the same cell value',
                   'bounded liveness: run() must return within %d s of real time per run on this machine' % LIVENESS_S]

    def plan(self, tier):
        if tier == 'quick':
            return {'runs': 170, 'budget_s': 160, 'batch': 2, 'shrink_s': 300}
        return {'runs': 6000, 'budget_s': 1800, 'batch': 2, 'shrink_s': 600}

    def generate(self, rng, tier, index):
        if tier == 'thorough' and index < 4:
            return {'arm': 'example', 'plot': index % 2 == 1, 'hist': index // 2 == 1, 'seed': 3, 'clock': 1600000000 + index}
        if index == 2:
            # fixed round-trip case that exercises the three recorded known findings on every run (so that each is
            # reported as KNOWN-FINDING regardless of the seed) next to ordinary cells
            return {'arm': 'roundtrip', 'column_width': None, 'read_engine': None, 'sheets': [
                {'name': 'Samples', 'index': 'ID', 'cols': ['Name', 'Value'],
                 'ids': ['S1', 'NA', 'S3', None, 'S5'],
                 'rows': [['abc', 0.5], ['x', 1], ['y', None], ['dropped', 2], ['z', 3.25]]},
                {'name': 'Beads', 'index': 'ID', 'cols': ['Name', 'Code', 'Value'],
                 'ids': ['B1', 'B2', 'B3'],
                 'rows': [['abc', '12', 0.5], ['NA', None, 1], ['n/a', '0.5', None]]}]}
        if index % 3 == 2:
            return self.gen_roundtrip(rng)
        small = tier == 'quick'
        wide = rng.chance(0.08)
        exp = expgen.gen_experiment(rng, faults=False, max_samples=2 if small else 4, max_beads=1 if small else 2, small=small,
                                    wide=wide)
        if wide:
            # a wide panel: one row reports (almost) every fluorescence channel
            fl = exp['instruments'][0]['fl']
            exp['samples'][0]['units'] = {c: rng.choice(['RFI', 'Channel', 'a.u.']) for c in fl[:rng.choice([10, 11, 12, 12])]}
            exp['beads'] = []
            for s_ in exp['samples']:
                s_['Beads ID'] = None
                s_['units'] = {c: (u if u.strip().lower() != 'mef' else 'RFI') for c, u in s_['units'].items()}
        # clustering on up to three channels (3-D diagnostic plot) where the instrument has them
        for b in exp['beads']:
            inst = [i for i in exp['instruments'] if i['ID'] == b['Instrument ID']][0]
            if len(inst['fl']) >= 3 and rng.chance(0.5):
                b['Clustering Channels'] = ', '.join(inst['fl'][:3])
        exp['extra_sheet'] = rng.chance(0.3)
        if rng.chance(0.05):
            exp['samples'] = []                       # a Samples sheet with a header and no rows is still well formed
        plot = rng.chance(0.12 if small else 0.25) or (wide and rng.chance(0.8))
        if plot and exp['samples'] and rng.chance(0.4):
            exp['samples'][-1]['units'] = {}              # a row that reports no channel still gets its figure
            exp['samples'][-1]['Beads ID'] = None
        return {'arm': 'run', 'exp': exp, 'plot': plot, 'hist': rng.chance(0.5), 'explicit_out': rng.choice([False, False, True, 'bare']),
                'in_name': rng.choice(['experiment.xlsx', 'experiment.xlsx', 'plate.1.xlsx', 'my data v2.0.xlsx', 'a.b.c.xlsx', 'x.xlsx']),
                'preexisting_dirs': rng.chance(0.4), 'rerun': rng.chance(0.3), 'relative_input': rng.wchoice([(False, 6), (True, 2), ('bare', 2)]),
                'subdir': rng.chance(0.3), 'seed': rng.randint(0, 2 ** 31 - 1), 'dpi': rng.choice([20, 30, 60]),
                'clock': rng.choice([rng.randint(946684800, 2082758399), 86400 * rng.randint(11000, 24000) - 1])}

    def gen_roundtrip(self, rng):
        ncol = rng.randint(1, 5)
        cols = []
        for j in range(ncol):
            c = rng.choice(['Name', 'Value', 'FL1-H Units', 'Gate Fraction', 'x', 'Col %d' % j, 'File Path', 'n/a', 'a b c'])
            while c in cols:
                c += '_'
            cols.append(c)
        nrow = rng.randint(0, 6)

        def cell():
            k = rng.wchoice([('str', 4), ('int', 3), ('float', 3), ('none', 2)])
            if k == 'str':
                return rng.choice(['abc', 'MEF', 'a.u.', '12', 'x y', 'FCFiles/s1.fcs', 'None', '0.5', 'café', 'A' * 40, 'NA', 'n/a', 'None, 800, 2500'])
            if k == 'int':
                return rng.choice([0, 1, -7, 400, 2 ** 31, 123456789])
            if k == 'float':
                return rng.choice([0.5, 1.0, -2.25, 1e-9, 3.141592653589793, 1e15, 0.1])
            return None
        ids = []
        rows = []
        dup = rng.chance(0.15)
        for i in range(nrow):
            rid = rng.choice(['S%d' % i, 'id %d' % i, 1000 + i]) if rng.chance(0.85) else None
            if rid is not None and rng.chance(0.04):
                rid = 'NA'
            ids.append(rid)
            rows.append([cell() for _ in cols])
        if dup and nrow >= 2 and ids[0] is not None:
            ids[-1] = ids[0]
        sheets = [{'name': rng.choice(['Samples', 'Beads', 'T1']), 'index': rng.choice(['ID', 'Keyword', 'Sample ID']),
                   'cols': cols, 'ids': ids, 'rows': rows}]
        if rng.chance(0.4):
            sheets.append({'name': 'Second', 'index': 'ID', 'cols': ['v'], 'ids': ['a', 'b'], 'rows': [[1], ['t']]})
        return {'arm': 'roundtrip', 'sheets': sheets, 'column_width': rng.choice([None, 12]),
                'read_engine': rng.choice([None, 'openpyxl'])}

    def summarise(self, case):
        if case['arm'] == 'run':
            from machines.batch import _BatchBase
            s = _BatchBase.summarise(self, case)
            s.update({k: case[k] for k in ('plot', 'hist', 'explicit_out', 'subdir', 'dpi', 'clock')})
            return s
        return case

    # ------------------------------------------------------------------
    def execute(self, case):
        if case['arm'] == 'roundtrip':
            return self.exec_roundtrip(case)
        return self.exec_run(case)

    def exec_roundtrip(self, case):
        import FlowCal as F
        import pandas as pd
        X = F.excel_ui
        log = OpLog()
        out = {'violations': [], 'sigs': set(), 'faults': {}, 'probes': {}, 'evals': 1, 'components': {}}
        V = out['violations']
        dk = simdisk.SimDisk('c15r')
        os.makedirs(dk.root, exist_ok=True)
        path = dk.path('t.xlsx')
        try:
            tl = []
            for sh in case['sheets']:
                df = pd.DataFrame(sh['rows'], columns=sh['cols'], index=pd.Index(sh['ids'], name=sh['index'], dtype=object),
                                  dtype=object)
                tl.append((sh['name'], df))
            ev = []
            seam = seams.OpenSeam(ev, root=dk.root)
            with seams.patched(X, 'open', seam), warnings.catch_warnings():
                warnings.simplefilter('ignore')
                try:
                    X.write_workbook(path, tl, column_width=case.get('column_width'))
                except Exception as e:
                    V.append(violation('C15/write-raises', 'write_workbook/' + type(e).__name__, str(e)[:200]))
                    out['digest'] = log.digest()
                    return out
                for sh in case['sheets']:
                    ids = sh['ids']
                    kept = [(i, r) for i, r in zip(ids, sh['rows']) if i is not None]
                    has_dup = len({repr(i) for i, _ in kept}) != len(kept)
                    try:
                        t = X.read_table(path, sh['name'], index_col=sh['index'], engine=case.get('read_engine'))
                        rk = 'ok'
                    except Exception as e:
                        t, rk = e, 'exc:' + type(e).__name__
                    log.add('read', sh['name'], rk)
                    shape = 'r%dc%d' % (min(len(ids), 3), min(len(sh['cols']), 3))
                    if has_dup:
                        out['probes']['duplicate_ids'] = out['probes'].get('duplicate_ids', 0) + 1
                        if rk == 'ok':
                            real = [i for i, _ in kept if not (isinstance(i, str) and i in NA_STRINGS)]
                            if len({repr(i) for i in real}) == len(real):
                                # the only repeated identifier is a missing-value spelling: those rows were dropped as
                                # "rows without identifier" (the recorded NA-identifier finding), so no duplicate was seen
                                V.append(violation('C15/roundtrip', 'row-ids/na-string-id-dropped',
                                                   'ids read %r, written %r' % (list(t.index), ids)))
                            else:
                                V.append(violation('C15/duplicates-accepted', 'read_table', 'duplicated identifiers %r accepted' % ids))
                        continue
                    if rk != 'ok':
                        V.append(violation('C15/read-raises', 'read_table/' + rk, str(t)[:200]))
                        continue
                    if any(i is None for i in ids):
                        out['probes']['rows_without_id'] = out['probes'].get('rows_without_id', 0) + 1
                    got_ids = list(t.index)
                    want_ids = [i for i, _ in kept]
                    if len(got_ids) != len(want_ids) or not all(cell_eq(a, b) for a, b in zip(got_ids, want_ids)):
                        site = 'row-ids/' + ('null-id' if any(i is None for i in ids) else 'plain')
                        wo = [i for i in want_ids if not (isinstance(i, str) and i in NA_STRINGS)]
                        if len(got_ids) == len(wo) and all(cell_eq(a, b) for a, b in zip(got_ids, wo)):
                            site = 'row-ids/na-string-id-dropped'
                        V.append(violation('C15/roundtrip', site, 'ids read %r, written %r' % (got_ids, ids)))
                        continue
                    if list(t.columns) != sh['cols'] or t.index.name != sh['index']:
                        V.append(violation('C15/roundtrip', 'columns', 'columns read %r (index %r), written %r (index %r)' % (
                            list(t.columns), t.index.name, sh['cols'], sh['index'])))
                        continue
                    for (rid, row), (_, trow) in zip(kept, t.iterrows()):
                        for c, a, b in zip(sh['cols'], row, trow.tolist()):
                            b = b.item() if hasattr(b, 'item') else b
                            if not cell_eq(a, b):
                                kind = type(a).__name__
                                if isinstance(a, str) and isinstance(b, (int, float)) and not isinstance(b, bool):
                                    try:
                                        if float(a) == float(b):
                                            kind = 'numeric-string-read-as-number'
                                    except ValueError:
                                        pass
                                if isinstance(a, str) and a in NA_STRINGS and (b is None or (isinstance(b, float) and b != b)):
                                    kind = 'na-string-read-as-empty'
                                V.append(violation('C15/roundtrip', 'cell/%s' % kind,
                                                   'row %r column %r: written %r, read %r' % (rid, c, a, b)))
                    out['sigs'].add('roundtrip|%s|%s|%s' % (shape, 'nullid' if any(i is None for i in ids) else '-',
                                                            ''.join(sorted({type(x).__name__[0] for r in sh['rows'] for x in r}))))
            seam.close_leaked()
        finally:
            dk.teardown()
        out['digest'] = log.digest()
        out['summary'] = {'violations': len(V)}
        return out

    def exec_run(self, case):
        import FlowCal as F
        import matplotlib.figure
        import matplotlib.pyplot as plt
        import pandas as pd
        X = F.excel_ui
        log = OpLog()
        out = {'violations': [], 'sigs': set(), 'faults': {}, 'probes': {}, 'evals': 1, 'components': {}, 'sim_time': 0.0}
        V = out['violations']

        def bump(d, k, n=1):
            d[k] = d.get(k, 0) + n

        dk = simdisk.SimDisk('c15')
        os.makedirs(dk.root, exist_ok=True)
        try:
            if case['arm'] == 'example':
                import shutil
                src = os.path.join(os.path.dirname(os.path.dirname(os.path.abspath(F.__file__))), 'examples')
                shutil.copytree(src, os.path.join(dk.root, 'examples'))
                wdir = os.path.join(dk.root, 'examples')
                in_path = os.path.join(wdir, 'experiment.xlsx')
                exp = None
                _, sheets_in = read_workbook(in_path)
                tables_in = {k: (v[0], [r for r in v[1:] if r and r[0] is not None]) for k, v in sheets_in.items()}
                out_path = None
            else:
                exp = case['exp']
                wdir = os.path.join(dk.root, 'work') if case.get('subdir') else dk.root
                os.makedirs(wdir, exist_ok=True)
                for name, desc in sorted(exp['files'].items()):
                    p = os.path.join(wdir, name)
                    os.makedirs(os.path.dirname(p), exist_ok=True)
                    with open(p, 'wb') as f:
                        f.write(expgen.file_bytes(desc))
                in_path = os.path.join(wdir, case.get('in_name', 'experiment.xlsx'))
                tables_in = write_input_workbook(in_path, exp)
                if case.get('preexisting_dirs'):
                    # as left behind by an earlier run of the same workbook
                    os.makedirs(os.path.join(wdir, 'plot_beads'), exist_ok=True)
                    os.makedirs(os.path.join(wdir, 'plot_samples'), exist_ok=True)
                out_path = os.path.join(wdir, 'results', 'out.xlsx') if case.get('explicit_out') else None
                if case.get('explicit_out') == 'bare':
                    out_path = os.path.join(wdir, 'results.xlsx')      # `-o results.xlsx`: no directory component
                if out_path:
                    os.makedirs(os.path.dirname(out_path), exist_ok=True)

            def snapshot():
                snap = {}
                for dp, dn, fn in os.walk(dk.root):
                    for f in fn:
                        p = os.path.join(dp, f)
                        with open(p, 'rb') as fh:
                            snap[os.path.relpath(p, wdir)] = fh.read()
                return snap
            before = snapshot()
            ev = []
            io_seam = seams.OpenSeam(ev, root=wdir)
            x_seam = seams.OpenSeam(ev, root=wdir)
            clock = seams.SimClock(case['clock'])
            saved = []
            orig_savefig = matplotlib.figure.Figure.savefig

            def rec_savefig(fig, fname, *a, **kw):
                saved.append(os.path.relpath(str(fname), wdir))
                ev.append(('savefig', os.path.relpath(str(fname), wdir), kw.get('dpi')))
                return orig_savefig(fig, fname, *a, **kw)
            seams.seed_global_rng(case['seed'])
            old_dpi = F.plot.savefig_dpi
            run_in = in_path
            run_out = out_path
            old_cwd = os.getcwd()
            if case.get('relative_input') == 'bare' and case['arm'] == 'run':
                # the user sits in the folder and types a bare file name: `flowcal -i experiment.xlsx`
                os.chdir(wdir)
                run_in = os.path.basename(in_path)
                if out_path:
                    run_out = os.path.relpath(out_path, wdir)
                out['probes']['bare_input_file_name'] = 1
            elif case.get('relative_input') and case['arm'] == 'run':
                # the user types a relative path: `flowcal -i work/experiment.xlsx` from the directory above
                os.chdir(os.path.dirname(wdir))
                run_in = os.path.join(os.path.basename(wdir), os.path.basename(in_path))
                if out_path:
                    run_out = os.path.relpath(out_path, os.path.dirname(wdir))
                out['probes']['relative_input_path'] = 1
            elif case.get('explicit_out') == 'bare' and case['arm'] == 'run':
                # `flowcal -i /data/exp/experiment.xlsx -o results.xlsx` typed inside the folder
                os.chdir(wdir)
                run_out = os.path.basename(out_path)
            if case.get('explicit_out') == 'bare' and case['arm'] == 'run' and run_out == os.path.basename(out_path):
                out['probes']['explicit_output_without_directory'] = 1
            signal.signal(signal.SIGALRM, _alarm)
            signal.setitimer(signal.ITIMER_REAL, LIVENESS_S)
            t0 = _time.time()
            rk, err = 'ok', None
            try:
                with seams.patched(F.io, 'open', io_seam), seams.patched(X, 'open', x_seam), \
                        seams.patched(X, 'time', clock), \
                        seams.patched(matplotlib.figure.Figure, 'savefig', rec_savefig), warnings.catch_warnings():
                    warnings.simplefilter('ignore')
                    F.plot.savefig_dpi = case.get('dpi', 30)
                    try:
                        X.run(input_path=run_in, output_path=run_out, verbose=False, plot=case['plot'], hist_sheet=case['hist'])
                        if case.get('rerun'):
                            # history: the same workbook processed a second time into the same place
                            seams.seed_global_rng(case['seed'])
                            X.run(input_path=run_in, output_path=run_out, verbose=False, plot=case['plot'],
                                  hist_sheet=case['hist'])
                            out['probes']['second_run_on_same_workbook'] = 1
                    except Timeout:
                        rk = 'timeout'
                    except Exception as e:
                        import traceback
                        rk, err = 'exc:' + type(e).__name__, '%s | %s' % (str(e)[:200], traceback.format_exc().splitlines()[-3].strip())
            finally:
                signal.setitimer(signal.ITIMER_REAL, 0)
                os.chdir(old_cwd)
                F.plot.savefig_dpi = old_dpi
                plt.close('all')
                io_seam.close_leaked()
                x_seam.close_leaked()
            out['sim_time'] = clock.now - clock.epoch   # the simulated clock advances one second per read
            opt = 'plot=%d/hist=%d/out=%s' % (case['plot'], case['hist'], 'explicit' if out_path else 'default')
            log.add('run', rk, opt, len(ev))
            ncl = 0
            if exp:
                for b in exp['beads']:
                    ncl = max(ncl, len(b['Clustering Channels'].split(',')))
            if rk == 'timeout':
                V.append(violation('C15/no-termination', opt, 'run() did not return within %d s' % LIVENESS_S))
            elif rk != 'ok':
                V.append(violation('C15/run-raises', '%s/%s/cl%d' % (rk.split(':')[1], 'plot' if case['plot'] else 'noplot', ncl),
                                   'run() raised %s: %s' % (rk, err)))
            else:
                after = snapshot()
                exp_out = os.path.relpath(out_path, wdir) if out_path else \
                    os.path.splitext(os.path.basename(in_path))[0] + '_output.xlsx'
                created = sorted(k for k in set(after) - set(before))
                changed = sorted(k for k in before if after.get(k) != before[k])
                if changed:
                    V.append(violation('C15/input-modified', 'files', 'input files changed or removed: %s' % changed))
                want = {exp_out}
                err_rows = self.error_rows(os.path.join(wdir, exp_out)) if exp_out in after else None
                if case['plot'] and err_rows is not None:
                    bcols, brows = tables_in['Beads']
                    for r in brows:
                        if r[0] in err_rows['Beads']:
                            continue
                        want.add('plot_beads/density_hist_%s.png' % r[0])
                        chans = [c[:-len(' MEF Values')] for c, v in zip(bcols, r)
                                 if isinstance(c, str) and c.endswith(' MEF Values') and v is not None]
                        if chans:
                            want.add('plot_beads/clustering_%s.png' % r[0])
                            for ch in chans:
                                want.add('plot_beads/populations_%s_%s.png' % (ch, r[0]))
                                want.add('plot_beads/std_crv_%s_%s.png' % (ch, r[0]))
                    for r in tables_in['Samples'][1]:
                        if r[0] not in err_rows['Samples']:
                            want.add('plot_samples/%s.png' % r[0])
                missing = sorted(want - set(created))
                extra = sorted(set(created) - want)
                if missing:
                    V.append(violation('C15/files', 'missing/' + missing[0].split('/')[-1].split('_')[0].split('.')[0][:12],
                                       'documented files not written: %s' % missing))
                if extra:
                    V.append(violation('C15/files', 'extra', 'undocumented files written: %s' % extra))
                bump(out['probes'], 'figure_files_checked', len([c for c in created if c.endswith('.png')]))
                for c in created:
                    data = after[c]
                    if c.endswith('.png') and not data.startswith(b'\x89PNG\r\n\x1a\n'):
                        V.append(violation('C15/files', 'bad-png', '%s is not a PNG (%d bytes)' % (c, len(data))))
                    if c.endswith('.xlsx') and not data.startswith(b'PK'):
                        V.append(violation('C15/files', 'bad-xlsx', '%s is not a zip container' % c))
                    log.add('created', c, 'nonempty' if len(data) else 'EMPTY')
                if exp_out in after:
                    self.check_output(os.path.join(wdir, exp_out), tables_in, exp, case, clock, run_in, V, out)
            if exp is not None:
                from machines.batch import units_class
                out['sigs'].add('run|%s|%d/%d|%s|cl%d' % (opt, len(exp['beads']), len(exp['samples']),
                                                         ','.join(units_class(s['units']) for s in exp['samples']), ncl))
            else:
                out['sigs'].add('example|' + opt)
            bump(out['components'], 'plots:on' if case['plot'] else 'plots:off')
            bump(out['probes'], 'clock_reads', clock.reads)
        finally:
            dk.teardown()
        out['digest'] = log.digest()
        out['summary'] = {'violations': len(V), 'outcome': rk}
        return out

    def error_rows(self, path):
        """row ids carrying an ERROR note in the output workbook (no figure is documented for them)"""
        try:
            names, sheets = read_workbook(path)
        except Exception:
            return None
        res = {}
        for sh in ('Beads', 'Samples'):
            rows = sheets.get(sh) or [[]]
            hdr = list(rows[0])
            res[sh] = set()
            if 'Analysis Notes' in hdr:
                k = hdr.index('Analysis Notes')
                res[sh] = {r[0] for r in rows[1:] if isinstance(r[k], str) and r[k].startswith('ERROR')}
        return res

    def check_output(self, path, tables_in, exp, case, clock, in_path, V, out):
        try:
            names, sheets = read_workbook(path)
        except Exception as e:
            V.append(violation('C15/output-unreadable', type(e).__name__, str(e)[:200]))
            return
        want = ['Instruments', 'Beads', 'Samples'] + (['Histograms'] if case['hist'] else [])
        about = [n for n in names if n.startswith('About')]
        if names[:len(want)] != want or len(about) != 1 or len(names) != len(want) + 1:
            V.append(violation('C15/sheets', 'hist=%d' % case['hist'], 'sheets %r, expected %r + About' % (names, want)))
            return
        for sheet in ('Instruments', 'Beads', 'Samples'):
            cols_in, rows_in = tables_in[sheet]
            rows = sheets[sheet]
            hdr = rows[0] if rows else []
            if hdr[:len(cols_in)] != list(cols_in):
                V.append(violation('C15/columns', sheet, 'output header %r does not start with the input columns %r' % (hdr, cols_in)))
                continue
            body = rows[1:]
            if len(body) != len(rows_in):
                V.append(violation('C15/rows', sheet, '%d rows in, %d rows out' % (len(rows_in), len(body))))
                continue
            for rin, rout in zip(rows_in, body):
                for c, a, b in zip(cols_in, rin, rout):
                    if not cell_eq(a, b):
                        V.append(violation('C15/cells', sheet + '/' + type(a).__name__,
                                           'row %r column %r: input %r, output %r' % (rin[0], c, a, b)))
            added = hdr[len(cols_in):]
            if sheet == 'Instruments' and added:
                V.append(violation('C15/columns', 'Instruments/added', 'unexpected columns %r' % added))
            if sheet in ('Beads', 'Samples'):
                need = ['Analysis Notes', 'Number of Events', 'Acquisition Time (s)']
                pat = ' MEF Values' if sheet == 'Beads' else ' Units'
                for c in cols_in:
                    if isinstance(c, str) and c.endswith(pat):
                        ch = c[:-len(pat)]
                        if sheet == 'Beads':
                            need += [ch + x for x in (' Detector Volt.', ' Amp. Type', ' Beads Model', ' Beads Params. Names',
                                                      ' Beads Params. Values')]
                        else:
                            need += [ch + ' Detector Volt.', ch + ' Amp. Type'] + \
                                    ['%s %s' % (ch, sfx) for sfx, _ in pipeline_ref.STAT_COLS]
                if sheet == 'Beads' and not rows_in:
                    # with an empty beads table no per-channel model columns are produced (nothing to report)
                    need = [n for n in need if not n.endswith(('Beads Model', 'Beads Params. Names', 'Beads Params. Values'))]
                missing = [n for n in need if n not in added]
                if missing:
                    V.append(violation('C15/columns', sheet + '/result-columns', 'documented result columns missing: %r (added: %r)' % (
                        missing, added)))
                # healthy rows have their statistics filled in
                if exp is not None and not missing:
                    ci = {c: i for i, c in enumerate(hdr)}
                    for r in body:
                        note = r[ci['Analysis Notes']]
                        if isinstance(note, str) and note.startswith('ERROR'):
                            out['probes']['rows_with_error_note'] = out['probes'].get('rows_with_error_note', 0) + 1
                            continue
                        if r[ci['Number of Events']] is None:
                            V.append(violation('C15/cells', sheet + '/Number of Events', 'row %r has no event count' % r[0]))
        # About sheet
        ab = sheets[about[0]]
        kv = {r[0]: r[1] for r in ab[1:] if r}
        # what the simulated clock handed out (last run): date first, then time
        rets = [v for f, v in clock.returned]
        want_date = rets[-2] if len(rets) >= 2 else None
        want_time = rets[-1] if len(rets) >= 2 else None
        if kv.get('Date of analysis') != want_date or kv.get('Time of analysis') != want_time:
            V.append(violation('C15/about', 'clock', 'About sheet says %r %r, simulated clock %r %r' % (
                kv.get('Date of analysis'), kv.get('Time of analysis'), want_date, want_time)))
        if 'FlowCal version' not in kv or kv.get('Input file path') != in_path:
            V.append(violation('C15/about', 'fields', 'About sheet %r' % kv))
        if case['hist']:
            h = sheets['Histograms']
            if not h or list(h[0][:3]) != ['Sample ID', 'Channel', None] and h[0][0] != 'Sample ID':
                V.append(violation('C15/sheets', 'histograms-header', repr(h[:1])))
            out['probes']['histogram_sheet_rows'] = out['probes'].get('histogram_sheet_rows', 0) + max(0, len(h) - 1)

    def shrink_candidates(self, case):
        if case['arm'] == 'roundtrip':
            for i, sh in enumerate(case['sheets']):
                n = len(sh['ids'])
                for keep in list_reductions(list(range(n)), 0):
                    c = copy.deepcopy(case)
                    c['sheets'][i]['ids'] = [sh['ids'][k] for k in keep]
                    c['sheets'][i]['rows'] = [sh['rows'][k] for k in keep]
                    yield c
                for j in range(len(sh['cols'])):
                    if len(sh['cols']) > 1:
                        c = copy.deepcopy(case)
                        c['sheets'][i]['cols'] = sh['cols'][:j] + sh['cols'][j + 1:]
                        c['sheets'][i]['rows'] = [r[:j] + r[j + 1:] for r in sh['rows']]
                        yield c
            if len(case['sheets']) > 1:
                c = copy.deepcopy(case)
                c['sheets'] = case['sheets'][:1]
                yield c
            return
        if case['arm'] != 'run':
            return
        from machines.batch import _BatchBase
        for c in _BatchBase.shrink_candidates(self, case):
            yield c
        for k, v in (('plot', False), ('hist', False), ('explicit_out', False), ('subdir', False)):
            if case.get(k):
                c = copy.deepcopy(case)
                c[k] = v
                yield c
