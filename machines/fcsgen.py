"""Seeded generator of FCS layout specs (the C01 configuration space) and of
structural faults on them (the C16 fault space)."""
import copy
import re

import numpy as np

from models import fcs_ref

WIDTHS = (8, 16, 24, 32, 40, 48, 56, 64)
DELIMS = ['/', '|', '\\', '!', '*', ',', '\x0c', '\t', '#', ':', '@', '~']
REAL_NAMES = ['FSC-H', 'SSC-H', 'FL1-H', 'FL2-H', 'FL3-H', 'FSC-A', 'FL1-A', 'BL1', 'YL2']
WORDCH = 'abcXYZ019 _-$.'


def rand_word(rng, delim, lo=1, hi=8, allow_delim=True):
    n = rng.randint(lo, hi)
    s = ''
    for i in range(n):
        if allow_delim and i > 0 and rng.chance(0.18):
            s += delim
        else:
            c = rng.choice(WORDCH)
            s += c
    if s[0] == delim or s.strip() == '':
        s = 'k' + s
    return s


def rand_pairs(rng, delim, lo, hi, prefix, allow_delim=True):
    n = rng.randint(lo, hi)
    pairs = []
    keys = set()
    for i in range(n):
        k = prefix + rand_word(rng, delim, 1, 6, allow_delim)
        if k in keys:
            k = k + str(i)
        keys.add(k)
        pairs.append([k, rand_word(rng, delim, 1, 10, allow_delim)])
    return pairs


FLOAT_POOL = [0.0, -0.0, 1.0, -1.5, 1e-3, 262143.0, 3.4028234663852886e+38,
              1.401298464324817e-45, float('inf'), float('-inf'), 1023.0, -200.25]


def gen_events(rng, spec, N):
    D = len(spec['widths'])
    ev = []
    dt = spec['datatype']
    for i in range(N):
        row = []
        for j in range(D):
            w = spec['widths'][j]
            if dt == 'I':
                R = int(spec['ranges'][j])
                k = rng.randint(0, 9)
                if k == 0:
                    v = 0
                elif k == 1:
                    v = (1 << w) - 1
                elif k == 2:
                    v = 1 << (w - 1)
                elif k == 3:
                    v = rng.randint(0, (1 << w) - 1)          # may exceed the range: must be masked
                elif k == 4:
                    v = max(0, min((1 << w) - 1, R - 1))
                elif k == 5:
                    v = int('55' * (w // 8), 16) ^ (rng.randint(0, 255) << (8 * rng.randint(0, w // 8 - 1)))
                else:
                    v = rng.randint(0, max(0, min((1 << w), R) - 1))
                row.append(int(v))
            else:
                if rng.chance(0.35):
                    v = rng.choice(FLOAT_POOL)
                else:
                    v = rng.r.gauss(0, 1) * 10 ** rng.randint(-2, 5)
                if dt == 'F':
                    v = float(np.float32(v))
                row.append(float(v))
        ev.append(row)
    return ev


def gen_spec(rng, small=False, datatype=None, version=None, names=None, n_events=None,
             n_params=None, keywords=True, bulk_p=0.0):
    version = version or rng.choice(['FCS2.0', 'FCS3.0', 'FCS3.1'])
    v3 = version != 'FCS2.0'
    dt = datatype or rng.wchoice([('I', 6), ('F', 2), ('D', 2)])
    # mostly few parameters; sometimes two-digit parameter numbers ($P10B ... $P12R)
    D = n_params or rng.wchoice([(1, 4), (2, 6), (3, 6), (4, 4), (5, 2), (6, 2), (10, 1), (11, 1), (12, 1)])
    wide = False
    if n_params is None and not small and rng.chance(0.012):
        # a wide panel: more than 255 bytes per event (spectral cytometers have 60+ parameters)
        D = rng.choice([40, 64, 100])
        wide = True
    if dt == 'I':
        if rng.chance(0.5):
            widths = [rng.choice(WIDTHS)] * D
        else:
            widths = [rng.choice(WIDTHS) for _ in range(D)]
    else:
        widths = [32 if dt == 'F' else 64] * D
    ranges = []
    for w in widths:
        if dt != 'I':
            ranges.append(rng.choice([1024, 262144, 1000, 4096, 16777216]))
            continue
        k = rng.wchoice([('full', 42), ('pow2', 27), ('odd', 27), ('pow2p1', 4)])
        if k == 'full':
            R = 1 << w
        elif k == 'pow2':
            R = 1 << rng.randint(1, w)
        elif k == 'odd':
            R = rng.randint(2, (1 << min(w, 52)) - 1)
        else:
            R = (1 << rng.randint(1, min(w, 52) - 1)) + rng.choice([1, 1, 2, 3])
        ranges.append(R)
    if names is None:
        if rng.chance(0.5) and D <= 14:
            pool = list(REAL_NAMES) + ['FL%d-W' % j for j in range(1, 6)]
            rng.shuffle(pool)
            names = pool[:D]
        else:
            names = ['P%d' % (j + 1) for j in range(D)]
    delim = rng.choice(DELIMS[:5]) if rng.chance(0.7) else rng.choice(DELIMS)
    if n_events is None:
        N = rng.wchoice([(0, 4), (1, 8), (2, 8), (3, 10), (5, 10), (8, 10), (13, 10), (21, 8), (40, 4)])
        if small:
            N = min(N, 8)
        if wide:
            N = min(N, 3)
    else:
        N = n_events
    segs = ['TEXT', 'DATA']
    spec = {
        'version': version, 'datatype': dt,
        'byteord': rng.choice(['4,3,2,1', '2,1', '1,2,3,4', '1,2']),
        'widths': widths, 'ranges': ranges, 'names': names, 'delim': delim,
        'mode': 'L', 'nextdata': 0 if rng.chance(0.93) else rng.choice([1, 4096]),
        'offset_width': rng.choice([8, 10, 12]),
        'end_plus_one': rng.chance(0.25),
        'header_data': True if not v3 else rng.chance(0.6),
        'header_analysis': True if not v3 else rng.chance(0.5),
        'blank_analysis': rng.chance(0.3),
        'numpad': rng.choice([0, 0, 0, 4, 8]),
    }
    spec['text_data_zero'] = bool(v3 and spec['header_data'] and rng.chance(0.3))
    if keywords:
        spec['extra'] = rand_pairs(rng, delim, 0, 3, 'X')
        if v3 and rng.chance(0.45):
            spec['stext'] = rand_pairs(rng, delim, 1, 3, 'S')
            spec['stext_lead'] = rng.chance(0.7)
            segs.append('STEXT')
        if rng.chance(0.45):
            spec['analysis'] = rand_pairs(rng, delim, 1, 3, 'A')
            spec['analysis_lead'] = rng.chance(0.7)
            segs.append('ANALYSIS')
            if rng.chance(0.12):
                # a damaged ANALYSIS segment (documented: warned about and read as empty)
                spec['analysis_raw'] = delim + 'Akey' + delim + 'v' + delim + 'unpaired' + delim
        if rng.chance(0.5):
            spec['shuffle'] = rng.randint(0, 10 ** 6)
    rng.shuffle(segs) if rng.chance(0.6) else None
    spec['order'] = segs
    pads = []
    for i in range(len(segs) + 1):
        if rng.chance(0.5):
            pads.append('')
            continue
        n = rng.randint(1, 10 if i < len(segs) else 8)
        kind = rng.choice(['space', 'zero', 'garbage', 'delim', 'digits'])
        if kind == 'space':
            b = b' ' * n
        elif kind == 'zero':
            b = b'\x00' * n
        elif kind == 'delim':
            b = delim.encode(fcs_ref.ENC) * n
        elif kind == 'digits':
            b = b'0' * n
        else:
            b = bytes(rng.randint(0, 255) for _ in range(n))
        pads.append(b.hex())
    if n_params is None and not small and rng.chance(0.004):
        # a file larger than 10**7 bytes: HEADER offsets fill all eight digits of their fields
        pads[0] = 'big:%d' % rng.randint(9999900, 10000100)
    spec['pads'] = pads
    spec['events'] = gen_events(rng, spec, N)
    if n_params is None and not small and n_events is None and rng.chance(bulk_p):
        make_bulk(rng, spec)
    return spec


def make_bulk(rng, spec, kind=None):
    """Turns a layout into a LARGE file (real list-mode files have 10^5..10^6 events): events are described by
    (n, seed) and drawn with numpy. Two size classes: DATA just over 1 MiB with an awkward number of bytes per
    event, and DATA over 16 MiB."""
    kind = kind or rng.choice(['over1MiB', 'over16MiB'])
    dt = spec['datatype']
    if kind == 'over1MiB':
        if dt == 'I':
            D = rng.randint(1, 3)
            spec['widths'] = [rng.choice([8, 16, 24, 40]) for _ in range(D)]
            if sum(spec['widths']) // 8 in (1, 2, 4, 8, 16):
                spec['widths'][0] = 24
        else:
            spec['widths'] = [spec['widths'][0]] * rng.randint(1, 3)      # keep the file well below 10^8 bytes
        bpe = sum(w // 8 for w in spec['widths'])
        n = (1 << 20) // bpe + rng.randint(50000, 200000)
    else:
        D = rng.choice([4, 8])
        if dt == 'I':
            spec['widths'] = [rng.choice([16, 32])] * D
        else:
            spec['widths'] = [spec['widths'][0]] * D
        bpe = sum(w // 8 for w in spec['widths'])
        n = (17 << 20) // bpe + rng.randint(1000, 60000)
    D = len(spec['widths'])
    spec['ranges'] = [(1 << w) if dt == 'I' else 262144 for w in spec['widths']]
    spec['names'] = ['P%d' % (j + 1) for j in range(D)]
    spec['events'] = []
    spec['bulk'] = {'n': int(n), 'seed': rng.randint(0, 2 ** 31 - 1), 'kind': kind}
    return spec


# ---------------------------------------------------------------------------
# structural faults (C16)
# ---------------------------------------------------------------------------

def field_class(field):
    return re.sub(r'\$P\d+([A-Z])', r'$Pn\1', field)


def structural_fields(spec, info):
    """Fields of the C16 quantifier that exist in this file."""
    D = len(spec['widths'])
    fs = ['$TOT', '$PAR'] + ['$P%dB' % (j + 1) for j in range(D)]
    fs += ['H:text_begin', 'H:text_end', 'H:data_begin', 'H:data_end',
           'H:analysis_begin', 'H:analysis_end']
    if spec['version'] != 'FCS2.0':
        fs += list(fcs_ref.OFFSET_KEYS)
    return fs


def gen_field_fault(rng, spec, info, field=None, direction=None):
    """Returns {'field', 'value', 'dir'} with an explicit new value (string or int)."""
    if field is None:
        fs = structural_fields(spec, info)
        # the DATA size consistency fields carry most of the property: weight them up
        w = [(f, 3 if f in ('$TOT', '$PAR', 'H:data_begin', 'H:data_end', '$BEGINDATA', '$ENDDATA') else 1) for f in fs]
        field = rng.wchoice(w)
    true = info['fields'][field].strip()
    tv = int(true)
    direction = direction or rng.choice(['smaller', 'larger', '+1', '-1'])
    W = spec.get('offset_width', 10)
    if field_class(field) == '$PnB':
        cands = [w for w in WIDTHS if (w < tv if direction in ('smaller', '-1') else w > tv)]
        if direction in ('+1', '-1') or not cands:
            nv = tv + (1 if direction in ('larger', '+1') else -1)   # not byte aligned
        else:
            nv = rng.choice(cands)
    elif direction == '+1':
        nv = tv + 1
    elif direction == '-1':
        nv = tv - 1
    elif direction == 'smaller':
        # just past the one-byte tolerance is the interesting boundary
        nv = max(0, tv - 2) if rng.chance(0.3) else (rng.randint(0, max(0, tv - 1)) if rng.chance(0.6)
                                                      else max(0, tv - rng.randint(2, 9)))
    else:
        nv = tv + 2 if rng.chance(0.3) else (tv + rng.randint(2, 40) if rng.chance(0.7) else tv * 2 + rng.randint(1, 5))
    # an END offset at or just before its own BEGIN (empty / negative extent) and a BEGIN at or just past its END are
    # boundaries of their own
    partner = None
    if field.startswith('H:') and field.endswith('_end'):
        partner = field[:-4] + '_begin'
    elif field.startswith('H:') and field.endswith('_begin'):
        partner = field[:-6] + '_end'
    elif field.startswith('$END'):
        partner = '$BEGIN' + field[4:]
    elif field.startswith('$BEGIN'):
        partner = '$END' + field[6:]
    if partner in info['fields'] and direction in ('smaller', 'larger') and rng.chance(0.25):
        try:
            pv = int(info['fields'][partner].strip() or 0)
        except ValueError:
            pv = 0
        if pv > 0:
            if 'end' in field.lower() and direction == 'smaller':
                nv = pv + rng.choice([-2, -1, 0])
            elif 'begin' in field.lower() and direction == 'larger':
                nv = pv + rng.choice([0, 1, 2])
    if nv < 0:
        nv = 0 if tv != 0 else 1
    if nv == tv:
        nv = tv + 1
    if field.startswith('H:'):
        value = int(nv)
    elif field in fcs_ref.OFFSET_KEYS:
        value = str(nv).rjust(W)
    else:
        value = str(nv)
    return {'field': field, 'value': value, 'dir': direction}


def apply_field_faults(spec, faults):
    s = copy.deepcopy(spec)
    ov = dict(s.get('overrides') or {})
    for f in faults:
        ov[f['field']] = f['value']
    s['overrides'] = ov
    return s


def segment_at(info, c):
    """Which part of the file the first lost byte belongs to."""
    last_name, last_end = None, -1
    hit = None
    for name, (a, b) in info['seg'].items():
        if b >= a and a <= c <= b:
            hit = name
        if b > last_end:
            last_name, last_end = name, b
    if hit is None:
        hit = 'tail' if c > last_end else 'pad'
    return hit, (hit == last_name)
