"""C13: no call changes its inputs; results share no state; answers do not depend on history.

A run is a HISTORY: a sequence of calls into FlowCal's public surface on a pool of objects
(loaded sample, RFI/MEF-converted samples, sliced view and its parent, single-channel
sample, plain arrays). After every call:
 (1) the bit-exact fingerprint of every argument (incl. caller-owned lists/dicts, their
     element identities) and of every pool object equals its pre-call fingerprint -- also
     when the call raises;
 (2) a result that is a sample is mutated (values, range lists, keyword dicts) and the
     inputs must not change, and vice versa (the event buffer of a slice/view excepted);
 (3) the answer equals the answer the same call gives on a freshly built, never-used twin
     (history independence; NumPy's global RNG re-seeded identically)."""
import copy
import functools
import inspect
import io as _io
import os

import numpy as np

from machines import Machine, violation, fcsgen
from machines.restart import powerlaw
from models import fcs_ref
from models import fingerprint as fpm
from sim import disk as simdisk
from sim import seams
from sim.oplog import OpLog
from sim.shrink import list_reductions

CH = ['FSC-H', 'SSC-H', 'FL1-H', 'FL2-H', 'Time']
SAMPLES = ['raw', 'rfi', 'mef', 'view', 'parent', 'col', 'rawf', 'tfm']
ARRAYS = ['arr', 'arri']
SCALES = ['linear', 'log', 'logicle']


def times2(x):
    return x * 2.0 + 1.0


def gen_pool_spec(rng):
    N = rng.choice([60, 90, 140])
    spec = fcsgen.gen_spec(rng, names=list(CH), n_params=5, n_events=0, keywords=True, datatype='I',
                           version=rng.choice(['FCS2.0', 'FCS3.0', 'FCS3.1']))
    spec['widths'] = [16] * 5
    spec['ranges'] = [1024, 1024, 1024, 1024, 65536]
    spec['pne'] = ['0,0', '0,0', '4,1', rng.choice(['4,1', '4,0', '0,0']), '0,0']
    g = rng.np
    ev = np.c_[np.clip(g.normal(500, 120, N), 0, 1023), np.clip(g.normal(400, 150, N), 0, 1023),
               np.clip(g.normal(450, 200, N), 0, 1023), np.clip(g.normal(300, 180, N), 0, 1023),
               np.sort(g.integers(0, 60000, N))].astype(int)
    # make sure both range limits occur (saturated events) and ties exist
    ev[0, 0] = 0
    ev[1, 0] = 1023
    ev[2, 2] = 1023
    ev[3, 3] = 0
    spec['events'] = ev.tolist()
    spec['extra'] = (spec.get('extra') or []) + [['$TIMESTEP', '0.01'], ['$P3V', '500'], ['$P4V', '620.5'],
                                                  ['$P1G', '2'], ['$BTIM', '10:00:00'], ['$ETIM', '10:05:30'],
                                                  ['$DATE', '05-JAN-2020'], ['$P3S', 'GFP']]
    return spec


def apply_mutation(obj, mop):
    """A legitimate in-place edit made by the CALLER (not by FlowCal) on one of its own objects."""
    k = mop['kind']
    if k == 'values':
        j = mop['col'] % obj.shape[1] if obj.ndim == 2 else None
        if obj.ndim == 2:
            obj[:, j] = obj[:, j] - mop['delta']
        else:
            obj[...] = obj - mop['delta']
    elif k == 'range':
        r = obj.range()
        j = mop['col'] % len(r)
        if r[j] is not None:
            r[j][mop['end']] = float(mop['value'])
    elif k == 'text':
        obj.text[mop['key']] = mop['value']


class Pool(object):
    """Objects handed to FlowCal, each buildable from scratch (the pristine twin)."""

    def __init__(self, F, path, fpath):
        self.F = F
        self.path = path
        self.fpath = fpath
        self.obj = {}
        self.mutlog = {}

    def make(self, name):
        F = self.F
        if name == 'raw':
            return F.io.FCSData(self.path)
        if name == 'rawf':
            return F.io.FCSData(self.fpath)
        if name == 'rfi':
            return F.transform.to_rfi(F.io.FCSData(self.path), CH[:4])
        if name == 'mef':
            r = F.transform.to_rfi(F.io.FCSData(self.path), CH[:4])
            return F.transform.to_mef(r, ['FL1-H'], [functools.partial(powerlaw, 1.1, 2.0)], ['FL1-H'])
        if name == 'tfm':
            return F.transform.transform(F.io.FCSData(self.path), ['FSC-H', 'FL1-H'], np.arcsinh)
        if name == 'parent':
            return F.io.FCSData(self.path)
        if name == 'view':
            return self.get('parent')[10:50]
        if name == 'col':
            return F.transform.to_rfi(F.io.FCSData(self.path), CH[:4])[:, 'FL1-H']
        if name == 'arr':
            return np.array(F.io.FCSData(self.path).view(np.ndarray), dtype=float)
        if name == 'arri':
            return np.array(F.io.FCSData(self.path).view(np.ndarray))
        raise KeyError(name)

    def fresh(self, name):
        """never-used twin (the view's twin is a view of a fresh parent); the caller's own in-place edits of the
        used object (op 'mutate') are part of its state and are replayed on the twin"""
        if name == 'view':
            return self.F.io.FCSData(self.path)[10:50]
        t = self.make(name)
        for mop in self.mutlog.get(name, []):
            apply_mutation(t, mop)
        return t

    def get(self, name):
        if name not in self.obj:
            if name == 'view' and 'parent' not in self.obj:
                self.obj['parent'] = self.make('parent')
            self.obj[name] = self.make(name)
        return self.obj[name]


# ---------------------------------------------------------------------------
# call generation (JSON-able ops)
# ---------------------------------------------------------------------------

def gen_ch(rng, forms=('none', 'name', 'int', 'list', 'list1'), n=5, names=CH):
    f = rng.choice(forms)
    if f == 'none':
        return None
    if f == 'name':
        return rng.choice(names[:n])
    if f == 'int':
        return rng.randint(0, n - 1)
    if f == 'list1':
        return [rng.choice(names[:n])]
    k = rng.randint(1, min(3, n))
    return [(names[i] if rng.chance(0.6) else i) for i in rng.sample(range(n), k)]


def gen_call(rng, plots=True):
    fam = rng.wchoice([('acc', 10), ('prop', 5), ('hist_bins', 10), ('slice', 5), ('to_rfi', 5), ('transform', 3),
                       ('to_mef', 4), ('start_end', 3), ('high_low', 5), ('ellipse', 3), ('gate_density2d', 7),
                       ('stats', 8), ('clustering_gmm', 2), ('selection_std', 5), ('fit', 2), ('get_transform_fxn', 2),
                       ('io_fn', 2), ('logicle', 2), ('mutate', 5)] +
                      ([('plot_hist1d', 2), ('plot_density2d', 3), ('plot_scatter2d', 1), ('plot_scatter3d', 1),
                        ('plot_density_and_hist', 2), ('plot_violin', 1), ('plot_std_crv', 1)] if plots else []))
    S = rng.choice(['raw', 'rfi', 'mef', 'view', 'rawf', 'parent', 'tfm'])
    if fam == 'mutate':
        kind = rng.choice(['values', 'range', 'text'])
        op = {'fn': 'mutate', 'obj': rng.choice(['raw', 'rfi', 'mef', 'rawf', 'col', 'tfm']), 'kind': kind}
        if kind == 'values':
            op.update(col=rng.randint(0, 4), delta=rng.choice([1, 300, 7]))
        elif kind == 'range':
            op.update(col=rng.randint(0, 4), end=rng.choice([0, 1]), value=rng.choice([-50.0, 1.0, 9999.0, 500.0]))
        else:
            op.update(key=rng.choice(['$FIL', 'NOTE', '$TIMESTEP']), value=rng.choice(['edited', '0.5']))
        return op
    if fam == 'acc':
        obj = rng.choice(SAMPLES)
        return {'fn': 'acc', 'obj': obj, 'meth': rng.choice(['range', 'resolution', 'amplification_type',
                                                             'detector_voltage', 'amplifier_gain', 'channel_labels']),
                'ch': gen_ch(rng, n=1 if obj == 'col' else 5, names=['FL1-H'] if obj == 'col' else CH)}
    if fam == 'prop':
        return {'fn': 'prop', 'obj': rng.choice(SAMPLES),
                'name': rng.choice(['channels', 'text', 'analysis', 'time_step', 'acquisition_start_time',
                                    'acquisition_end_time', 'acquisition_time', 'data_type', 'infile', 'str'])}
    if fam == 'hist_bins':
        obj = rng.choice(SAMPLES)
        ch = gen_ch(rng, n=1 if obj == 'col' else 5, names=['FL1-H'] if obj == 'col' else CH)
        nb = rng.choice([None, 1, 2, 16, 256])
        sc = rng.choice(SCALES)
        if isinstance(ch, list) and rng.chance(0.4):
            nb = [rng.choice([None, 4, 32]) for _ in ch]
            sc = [rng.choice(SCALES) for _ in ch]
        return {'fn': 'hist_bins', 'obj': obj, 'ch': ch, 'nbins': nb, 'scale': sc}
    if fam == 'slice':
        return {'fn': 'slice', 'obj': S, 'form': rng.choice(['events', 'channels', 'view', 'copy', 'mask', 'deepcopy',
                                                              'listkey', 'rowlist'])}
    if fam == 'to_rfi':
        if rng.chance(0.3):
            k = rng.randint(1, 3)
            return {'fn': 'to_rfi', 'obj': rng.choice(ARRAYS), 'ch': rng.sample(range(5), k),
                    'at': [[rng.choice([0.0, 4.0]), 1.0] for _ in range(k)], 'ag': [rng.choice([None, 2.0]) for _ in range(k)],
                    'res': [1024] * k}
        if rng.chance(0.3):
            # partial overrides: caller-owned lists in which None means "take it from the sample"
            chs = rng.sample(CH[:4], rng.randint(1, 3))
            return {'fn': 'to_rfi', 'obj': S, 'ch': chs,
                    'at': [rng.choice([None, [3.0, 1.0], [0.0, 0.0]]) for _ in chs],
                    'ag': [rng.choice([None, 2.0]) for _ in chs], 'res': [rng.choice([None, 1024, 256]) for _ in chs]}
        return {'fn': 'to_rfi', 'obj': S, 'ch': gen_ch(rng, forms=('none', 'name', 'list', 'list1'))}
    if fam == 'transform':
        return {'fn': 'transform', 'obj': rng.choice([S, 'arr']), 'ch': gen_ch(rng, forms=('none', 'int', 'list'))}
    if fam == 'to_mef' and rng.chance(0.35):
        # channels and curve channels as caller-owned lists of positions, negative ones included
        pos = rng.sample([-1, -2, -3, 0, 1, 2, 3], rng.randint(1, 3))
        return {'fn': 'to_mef', 'obj': S, 'sc_channels': pos, 'ch': rng.choice([None, [pos[0]], list(reversed(pos))]),
                'params': [[1.0 + 0.05 * i, 1.0 + i] for i in range(len(pos))]}
    if fam == 'to_mef':
        chs = rng.sample(CH[:4], rng.randint(1, 3))
        return {'fn': 'to_mef', 'obj': S, 'sc_channels': chs, 'ch': rng.choice([None, chs[0], list(reversed(chs))]),
                'params': [[1.0 + 0.05 * i, 1.0 + i] for i in range(len(chs))]}
    if fam == 'start_end':
        return {'fn': 'start_end', 'obj': rng.choice([S, 'arr', 'col']), 'a': rng.choice([0, 3, 10, 500]),
                'b': rng.choice([0, 2, 7]), 'full': rng.chance(0.5)}
    if fam == 'high_low':
        if rng.chance(0.25):
            return {'fn': 'high_low', 'obj': rng.choice(ARRAYS), 'ch': rng.choice([None, [0, 1], 2]),
                    'high': rng.choice([900, None]), 'low': rng.choice([10, None]), 'full': rng.chance(0.5)}
        return {'fn': 'high_low', 'obj': S, 'ch': gen_ch(rng, forms=('none', 'name', 'list')),
                'high': rng.choice([None, 800]), 'low': rng.choice([None, 5]), 'full': rng.chance(0.5)}
    if fam == 'ellipse':
        return {'fn': 'ellipse', 'obj': rng.choice([S, 'arr']), 'ch': [0, 1] if rng.chance(0.4) else ['FSC-H', 'SSC-H'],
                'center': [rng.randint(100, 600), rng.randint(100, 600)], 'a': rng.randint(50, 400),
                'b': rng.randint(50, 400), 'theta': round(rng.rand() * 3, 3), 'log': rng.chance(0.2), 'full': rng.chance(0.5)}
    if fam == 'gate_density2d':
        bins = rng.choice(['int', 'pair', 'mixed', 'edges'])
        return {'fn': 'gate_density2d', 'obj': rng.choice([S, S, 'arr']), 'ch': rng.choice([[0, 1], ['FSC-H', 'SSC-H'], ['FL1-H', 2]]),
                'bins': bins, 'n': rng.choice([4, 8, 16]), 'f': rng.choice([0.0, 0.3, 0.65, 1.0, 1.5]),
                'xscale': rng.choice(SCALES), 'yscale': rng.choice(SCALES), 'sigma': rng.choice([0.5, 1.0, 3.0]),
                'full': rng.chance(0.6)}
    if fam == 'stats':
        obj = rng.choice(SAMPLES + ARRAYS)
        n, names = (1, ['FL1-H']) if obj == 'col' else (5, CH)
        ch = gen_ch(rng, n=n, names=names) if obj not in ARRAYS else rng.choice([None, 1, [0, 2]])
        if obj == 'col':
            ch = None
        return {'fn': 'stats', 'obj': obj, 'stat': rng.choice(['mean', 'gmean', 'median', 'mode', 'std', 'cv', 'gstd',
                                                               'gcv', 'iqr', 'rcv']), 'ch': ch}
    if fam == 'clustering_gmm':
        return {'fn': 'clustering_gmm', 'obj': rng.choice(['rfi', 'raw', 'arr']), 'ch': rng.choice([[2], [2, 3]]),
                'n': rng.choice([2, 3]), 'scale': rng.choice(SCALES)}
    if fam == 'selection_std':
        return {'fn': 'selection_std', 'src': rng.choice(['rfi', 'raw', 'arr', 'mef']), 'ch': rng.choice(['FL1-H', 'FSC-H', 'FL2-H']),
                'scale': rng.choice(SCALES), 'thr': rng.chance(0.4), 'k': rng.choice([2, 3])}
    if fam == 'fit':
        return {'fn': 'fit', 'n': rng.choice([3, 5, 7]), 'm': 1.05, 'b': 2.0, 'auto': rng.choice([0.0, 300.0])}
    if fam == 'get_transform_fxn':
        return {'fn': 'get_transform_fxn', 'obj': 'beads', 'mef_ch': rng.choice([['FL1-H'], ['FL1-H', 'FL2-H'], 'FL1-H']),
                'cl_ch': rng.choice([None, ['FL1-H'], ['FL1-H', 'FL2-H']]), 'full': rng.chance(0.5),
                'none_at': rng.choice([None, 0, 2])}
    if fam == 'io_fn':
        return {'fn': 'io_fn', 'which': rng.choice(['header', 'text', 'data', 'FCSFile'])}
    if fam == 'logicle':
        return {'fn': 'logicle', 'obj': rng.choice([S, 'arr']), 'ch': rng.choice([0, 2]), 'aslist': rng.chance(0.3)}
    if fam == 'plot_hist1d':
        return {'fn': 'plot_hist1d', 'obj': S, 'aslist': rng.chance(0.5), 'ch': rng.choice(['FL1-H', 2, 'FSC-H']),
                'xscale': rng.choice(SCALES), 'bins': rng.choice([None, 16, 'edges']),
                'norm': rng.choice([None, 'area', 'height', 'height', 'both']), 'weights': rng.chance(0.5)}
    if fam == 'plot_density2d':
        return {'fn': 'plot_density2d', 'obj': S, 'ch': rng.choice([[0, 1], ['FSC-H', 'SSC-H']]),
                'bins': rng.choice(['int', 'pair', 'mixed']), 'n': rng.choice([8, 16]), 'mode': rng.choice(['mesh', 'scatter']),
                'xscale': rng.choice(SCALES), 'yscale': rng.choice(SCALES)}
    if fam == 'plot_scatter2d':
        return {'fn': 'plot_scatter2d', 'obj': S, 'aslist': rng.chance(0.5), 'ch': ['FSC-H', 'FL1-H'],
                'xscale': rng.choice(SCALES), 'lims': rng.chance(0.3)}
    if fam == 'plot_scatter3d':
        return {'fn': 'plot_scatter3d', 'obj': S, 'proj': rng.chance(0.5), 'ch': ['FSC-H', 'SSC-H', 'FL1-H']}
    if fam == 'plot_density_and_hist':
        return {'fn': 'plot_density_and_hist', 'obj': S, 'gated': rng.chance(0.5), 'bins': rng.choice(['none', 'pair']),
                'hist_list': rng.chance(0.5)}
    if fam == 'plot_violin':
        return {'fn': 'plot_violin', 'obj': rng.choice([S, 'rfi', 'mef']), 'dose': rng.chance(0.4), 'ch': rng.choice(['FL1-H', 'FL2-H']),
                'positions': rng.choice([[1.0, 2.0], [0.0, 10.0], [0, 1, 100], [5, 0, 50]]),
                'xscale': rng.choice([None, 'linear', 'log']), 'yscale': rng.choice([None, 'linear', 'log', 'logicle']),
                'vert': rng.chance(0.8), 'oned': rng.chance(0.3), 'lists': rng.chance(0.4)}
    return {'fn': 'plot_std_crv'}


# ---------------------------------------------------------------------------
# call construction
# ---------------------------------------------------------------------------


def canonical_queries(obj):
    """Canonical read-only calls for the exhaustive ordered-pair walk (all on the object `obj`)."""
    one = obj == 'col'
    c1 = 'FL1-H'
    chs = [None, c1] if one else [None, c1, ['FSC-H', 'Time'], 1]
    q = []
    for m in ('range', 'resolution', 'amplification_type', 'detector_voltage', 'amplifier_gain', 'channel_labels'):
        for ch in chs[:2]:
            q.append({'fn': 'acc', 'obj': obj, 'meth': m, 'ch': ch})
    for nm in ('channels', 'text', 'analysis', 'time_step', 'acquisition_start_time', 'acquisition_end_time',
               'acquisition_time', 'data_type', 'str'):
        q.append({'fn': 'prop', 'obj': obj, 'name': nm})
    for sc in SCALES:
        for ch in chs:
            for nb in (None, 16):
                q.append({'fn': 'hist_bins', 'obj': obj, 'ch': ch, 'nbins': nb, 'scale': sc})
    for st in ('mean', 'gmean', 'median', 'mode', 'std', 'cv', 'gstd', 'gcv', 'iqr', 'rcv'):
        for ch in ([None] if one else [None, c1]):
            q.append({'fn': 'stats', 'obj': obj, 'stat': st, 'ch': ch})
    for f in ('events', 'channels', 'view', 'copy', 'mask', 'deepcopy') + (() if one else ('listkey', 'rowlist')):
        q.append({'fn': 'slice', 'obj': obj, 'form': f})
    if not one:
        q.append({'fn': 'to_rfi', 'obj': obj, 'ch': None})
        q.append({'fn': 'to_rfi', 'obj': obj, 'ch': [c1, 'FSC-H']})
        q.append({'fn': 'transform', 'obj': obj, 'ch': [0, 2]})
        q.append({'fn': 'to_mef', 'obj': obj, 'sc_channels': [c1, 'FL2-H'], 'ch': None, 'params': [[1.0, 1.0], [1.05, 2.0]]})
        q.append({'fn': 'high_low', 'obj': obj, 'ch': None, 'high': None, 'low': None, 'full': False})
        q.append({'fn': 'high_low', 'obj': obj, 'ch': [c1, 'FSC-H'], 'high': None, 'low': None, 'full': True})
        q.append({'fn': 'ellipse', 'obj': obj, 'ch': ['FSC-H', 'SSC-H'], 'center': [500, 400], 'a': 300, 'b': 200, 'theta': 0.5,
                  'log': False, 'full': True})
        for sc in SCALES:
            q.append({'fn': 'gate_density2d', 'obj': obj, 'ch': ['FSC-H', 'SSC-H'], 'bins': 'pair' if sc == 'log' else 'int', 'n': 8,
                      'f': 0.5, 'xscale': sc, 'yscale': sc, 'sigma': 1.0, 'full': sc == 'linear'})
        for sc in SCALES:
            q.append({'fn': 'selection_std', 'src': obj, 'ch': c1, 'scale': sc, 'thr': False, 'k': 3})
        q.append({'fn': 'logicle', 'obj': obj, 'ch': 2, 'aslist': False})
    q.append({'fn': 'start_end', 'obj': obj, 'a': 3, 'b': 2, 'full': True})
    return q


class Call(object):
    """callable + arguments + which argument objects to watch + classification"""

    def __init__(self, fn, args=(), kwargs=None, watch=None, shares='none', label=''):
        self.fn = fn
        self.args = list(args)
        self.kwargs = kwargs or {}
        self.watch = watch if watch is not None else (list(args) + list((kwargs or {}).values()))
        self.shares = shares          # 'none' | 'buffer' (slice/view may share the event buffer)
        self.label = label


def mk_bins(kind, n, sample2):
    if kind == 'int':
        return n
    if kind == 'pair':
        return [n, n + 4]
    if kind == 'mixed':
        return [np.linspace(0, 1024, n + 1), n]
    if kind == 'edges':
        return [np.linspace(0, 1024, n + 1), np.linspace(0, 1100, n + 3)]
    return None


def build_call(F, op, target, pool, beads=None):
    """target: the object standing for op['obj'] (used object or fresh twin)."""
    fn = op['fn']
    T = target
    if fn == 'acc':
        m = getattr(T, op['meth'])
        ch = op['ch']
        return Call(lambda c=ch: m(c) if c is not None else m(), watch=[T, ch], label='FCSData.' + op['meth'])
    if fn == 'prop':
        if op['name'] == 'str':
            return Call(lambda: str(T), watch=[T], label='FCSData.__str__')
        return Call(lambda: getattr(T, op['name']), watch=[T], label='FCSData.' + op['name'])
    if fn == 'hist_bins':
        ch, nb, sc = copy.deepcopy(op['ch']), copy.deepcopy(op['nbins']), copy.deepcopy(op['scale'])
        kw = {'nbins': nb, 'scale': sc}
        if ch is not None:
            kw['channels'] = ch
        return Call(T.hist_bins, kwargs=kw, watch=[T, ch, nb, sc], label='FCSData.hist_bins')
    if fn == 'slice':
        f = op['form']
        if f == 'events':
            return Call(lambda: T[5:40:2], watch=[T], shares='buffer', label='FCSData.__getitem__')
        if f == 'channels':
            return Call(lambda: T[:, 1:4], watch=[T], shares='buffer', label='FCSData.__getitem__')
        if f == 'mask':
            return Call(lambda: T[np.arange(T.shape[0]) % 2 == 0], watch=[T], label='FCSData.__getitem__')
        if f == 'listkey':
            # a caller-owned list of channel names and positions used as the column key
            key = ['FL1-H', 0, 'SSC-H'] if T.ndim == 2 and T.shape[1] >= 3 and hasattr(T, 'channels') else [0]
            if T.ndim != 2:
                return Call(lambda: T[key], watch=[T, key], label='FCSData.__getitem__')
            return Call(lambda: T[:, key], watch=[T, key], label='FCSData.__getitem__')
        if f == 'rowlist':
            rows = [3, 1, 7]
            return Call(lambda: T[rows], watch=[T, rows], label='FCSData.__getitem__')
        if f == 'view':
            return Call(lambda: T.view(), watch=[T], shares='buffer', label='FCSData.view')
        if f == 'deepcopy':
            return Call(lambda: copy.deepcopy(T), watch=[T], label='copy.deepcopy')
        return Call(lambda: T.copy(), watch=[T], label='FCSData.copy')
    if fn == 'to_rfi':
        ch = copy.deepcopy(op['ch'])
        if 'at' in op:
            kw = {'channels': ch, 'amplification_type': [None if a is None else tuple(a) for a in op['at']],
                  'amplifier_gain': copy.deepcopy(op['ag']), 'resolution': copy.deepcopy(op['res'])}
            return Call(F.transform.to_rfi, [T], kw, label='transform.to_rfi')
        return Call(F.transform.to_rfi, [T], {'channels': ch}, label='transform.to_rfi')
    if fn == 'transform':
        return Call(F.transform.transform, [T, copy.deepcopy(op['ch']), times2], label='transform.transform')
    if fn == 'to_mef':
        scs = [functools.partial(powerlaw, m, b) for m, b in op['params']]
        return Call(F.transform.to_mef, [T, copy.deepcopy(op['ch']), scs, list(op['sc_channels'])], label='transform.to_mef')
    if fn == 'start_end':
        return Call(F.gate.start_end, [T], {'num_start': op['a'], 'num_end': op['b'], 'full_output': op['full']},
                    label='gate.start_end')
    if fn == 'high_low':
        kw = {'channels': copy.deepcopy(op['ch']), 'high': op['high'], 'low': op['low'], 'full_output': op['full']}
        return Call(F.gate.high_low, [T], kw, label='gate.high_low')
    if fn == 'ellipse':
        return Call(F.gate.ellipse, [T, list(op['ch'])],
                    {'center': list(op['center']), 'a': op['a'], 'b': op['b'], 'theta': op['theta'], 'log': op['log'],
                     'full_output': op['full']}, label='gate.ellipse')
    if fn == 'gate_density2d':
        ch = list(op['ch'])
        if not hasattr(T, 'channels'):
            ch = [c if isinstance(c, int) else CH.index(c) for c in ch]
        kw = {'channels': ch, 'bins': mk_bins(op['bins'], op['n'], None), 'gate_fraction': op['f'],
              'xscale': op['xscale'], 'yscale': op['yscale'], 'sigma': op['sigma'], 'full_output': op['full']}
        return Call(F.gate.density2d, [T], kw, label='gate.density2d')
    if fn == 'stats':
        return Call(getattr(F.stats, op['stat']), [T], {'channels': copy.deepcopy(op['ch'])}, label='stats.' + op['stat'])
    if fn == 'clustering_gmm':
        d = T[:, op['ch']]
        return Call(F.mef.clustering_gmm, [d, op['n']], {'scale': op['scale']}, watch=[T, d], label='mef.clustering_gmm')
    if fn == 'selection_std':
        src = T
        ci = op['ch'] if hasattr(src, 'channels') else CH.index(op['ch'])
        col = src[:, ci]
        k = op['k']
        n = col.shape[0]
        pops = [col[i * (n // k):(i + 1) * (n // k)] for i in range(k)]
        kw = {'scale': op['scale']}
        if op['thr'] or not hasattr(src, 'channels'):
            kw.update(low=1.0, high=900.0)
        return Call(F.mef.selection_std, [pops], kw, watch=[src, pops, col], label='mef.selection_std')
    if fn == 'fit':
        mef = np.array([0, 800, 2500, 8000, 25000, 80000, 240000.][:op['n']])
        rfi = np.exp((np.log(mef + op['auto'] + 1.0) - op['b']) / op['m'])
        return Call(F.mef.fit_beads_autofluorescence, [rfi, mef], label='mef.fit_beads_autofluorescence')
    if fn == 'get_transform_fxn':
        mch = copy.deepcopy(op['mef_ch'])
        vals = [0, 800, 2500, 8000, 25000, 80000.]
        if op['none_at'] is not None:
            vals[op['none_at']] = None
        mv = [list(vals) for _ in mch] if isinstance(mch, list) else list(vals)
        kw = {'mef_channels': mch, 'clustering_channels': copy.deepcopy(op['cl_ch']), 'full_output': op['full'],
              'clustering_params': {'scale': 'logicle'}, 'selection_params': {}, 'statistic_params': {},
              'fitting_params': {}}
        return Call(F.mef.get_transform_fxn, [T, mv], kw, label='mef.get_transform_fxn')
    if fn == 'io_fn':
        raw = open(pool.path, 'rb').read()
        buf = _io.BytesIO(raw)
        if op['which'] == 'header':
            return Call(F.io.read_fcs_header_segment, [buf], watch=[raw], label='io.read_fcs_header_segment')
        h = F.io.read_fcs_header_segment(_io.BytesIO(raw))
        if op['which'] == 'text':
            return Call(F.io.read_fcs_text_segment, [buf, h.text_begin, h.text_end], watch=[raw],
                        label='io.read_fcs_text_segment')
        if op['which'] == 'FCSFile':
            return Call(F.io.FCSFile, [pool.path], watch=[raw], label='io.FCSFile')
        ff = F.io.FCSFile(pool.path)
        widths = [16] * 5
        rng_ = [1024., 1024., 1024., 1024., 65536.]
        f = open(pool.path, 'rb')
        db = h.data_begin or int(ff.text['$BEGINDATA'])
        de = h.data_end or int(ff.text['$ENDDATA'])
        return Call(F.io.read_fcs_data_segment, [f, db, de, 'I', int(ff.text['$TOT']), widths,
                                                 ff.text['$BYTEORD'] in ('4,3,2,1', '2,1'), rng_],
                    watch=[raw, widths, rng_], label='io.read_fcs_data_segment')
    if fn == 'logicle':
        data = [T, T] if op['aslist'] else T
        return Call(lambda: (lambda t: (t.T, t.M, t.W))(F.plot._LogicleTransform(data=data, channel=op['ch'])),
                    watch=[T, data], label='plot._LogicleTransform')
    if fn == 'plot_hist1d':
        data = [T, T[5:30]] if op['aslist'] else T
        bins = np.linspace(0, 1024, 17) if op['bins'] == 'edges' else op['bins']
        kw = {'channel': op['ch'], 'xscale': op['xscale'], 'bins': bins}
        if op.get('norm') in ('area', 'both'):
            kw['normed_area'] = True
        if op.get('norm') in ('height', 'both'):
            kw['normed_height'] = True
        w = None
        if op.get('weights') and not op['aslist']:
            # caller-owned per-event weights handed through to the histogram call
            w = np.full(T.shape[0], 2.0)
            kw['weights'] = w
        return Call(F.plot.hist1d, [data], kw, watch=[T, data, bins, w], label='plot.hist1d')
    if fn == 'plot_density2d':
        kw = {'channels': list(op['ch']), 'bins': mk_bins(op['bins'], op['n'], None), 'mode': op['mode'],
              'xscale': op['xscale'], 'yscale': op['yscale'], 'sigma': 1.0}
        return Call(F.plot.density2d, [T], kw, label='plot.density2d')
    if fn == 'plot_scatter2d':
        data = [T, T[5:30]] if op['aslist'] else T
        kw = {'channels': list(op['ch']), 'xscale': op['xscale']}
        if op['lims']:
            kw.update(xlim=[1, 1000], ylim=[1, 2000])
        return Call(F.plot.scatter2d, [data], kw, watch=[T, data] + list(kw.values()), label='plot.scatter2d')
    if fn == 'plot_scatter3d':
        f = F.plot.scatter3d_and_projections if op['proj'] else F.plot.scatter3d
        return Call(f, [[T]], {'channels': list(op['ch'])}, watch=[T], label='plot.' + f.__name__)
    if fn == 'plot_density_and_hist':
        dp = {'mode': 'scatter', 'sigma': 1.0}
        if op['bins'] == 'pair':
            dp['bins'] = [8, 12]
        hp = [{'xscale': 'logicle', 'bins': 16}, {'xscale': 'linear', 'bins': 8}] if op['hist_list'] \
            else {'xscale': 'logicle', 'bins': 16}
        kw = {'gated_data': T[10:40] if op['gated'] else None, 'density_channels': ['FSC-H', 'SSC-H'],
              'density_params': dp, 'hist_channels': ['FL1-H', 'FL2-H'], 'hist_params': hp}
        return Call(F.plot.density_and_hist, [T], kw, label='plot.density_and_hist')
    if fn == 'plot_violin':
        pos = list(op.get('positions', [1.0, 2.0]))
        n = T.shape[0]
        k = max(1, n // (len(pos) + 1))
        data = [T[i * k:(i + 1) * k + 5] for i in range(len(pos))]
        ch = op['ch']
        if op.get('oned'):
            data = [d[:, ch] for d in data]
            ch = None
        kw = {'channel': ch, 'positions': pos}
        for key in ('xscale', 'yscale'):
            if op.get(key) is not None:
                kw[key] = op[key]
        extra_watch = []
        if op.get('lists'):
            # caller-owned per-violin parameter lists (one entry per violin)
            kw['upper_trim_fraction'] = [0.01 + 0.01 * i for i in range(len(pos))]
            kw['lower_trim_fraction'] = [0.02 + 0.01 * i for i in range(len(pos))]
            kw['violin_kwargs'] = [{'facecolor': 'gray', 'edgecolor': 'black', 'linewidth': 1 + i} for i in range(len(pos))]
            kw['draw_summary_stat_kwargs'] = [{'color': 'black', 'linewidth': 1 + i} for i in range(len(pos))]
            extra_watch = [kw['upper_trim_fraction'], kw['lower_trim_fraction'], kw['violin_kwargs'],
                           kw['draw_summary_stat_kwargs']]
        if op['dose']:
            kw.update(min_data=(T[5:25] if not op.get('oned') else T[5:25][:, op['ch']]))
            kw.setdefault('xscale', 'log')
            return Call(F.plot.violin_dose_response, [data], kw, watch=[T, data, pos] + extra_watch,
                        label='plot.violin_dose_response')
        kw['vert'] = op.get('vert', True)
        return Call(F.plot.violin, [data], kw, watch=[T, data, pos] + extra_watch, label='plot.violin')
    if fn == 'plot_std_crv':
        mef = np.array([800, 2500, 8000, 25000, 80000.])
        rfi = np.exp((np.log(mef) - 2.0) / 1.05)
        return Call(F.mef.plot_standard_curve, [rfi, mef, functools.partial(powerlaw, 1.05, 2.0),
                                                functools.partial(powerlaw, 1.05, 2.0)],
                    {'xscale': 'log', 'yscale': 'log', 'xlim': [1.0, 1e4]}, label='mef.plot_standard_curve')
    raise ValueError(fn)


def is_sample(x):
    return isinstance(x, np.ndarray) and hasattr(x, '_name_to_index')


def samples_in(x, acc=None):
    acc = [] if acc is None else acc
    if is_sample(x):
        acc.append(x)
    elif isinstance(x, (list, tuple)):
        for e in x:
            samples_in(e, acc)
    elif isinstance(x, dict):
        for e in x.values():
            samples_in(e, acc)
    return acc


def ident(x):
    """identity skeleton of caller-owned containers (one level of lists/dicts)"""
    if isinstance(x, list):
        return [id(e) for e in x]
    if isinstance(x, dict):
        return sorted((repr(k), id(v)) for k, v in x.items())
    return None


def result_fp(r):
    """bit-exact fingerprint of an answer; callables are named, not addressed"""
    if callable(r) and not isinstance(r, np.ndarray):
        if isinstance(r, functools.partial):
            return ('partial', getattr(r.func, '__name__', '?'), sorted(r.keywords or {}))
        return ('fn', getattr(r, '__name__', type(r).__name__))
    if is_sample(r):
        return fpm.fp_any(r)
    if type(r).__name__ == 'FCSFile':
        return ('FCSFile', os.path.basename(str(r.infile)), fpm.canon(tuple(r.header)), fpm.canon(r.text),
                fpm.array_fp(r.data), fpm.canon(r.analysis))
    if isinstance(r, str) and os.sep in r and os.path.isabs(r):
        return ('path', os.path.basename(r))          # the scratch directory differs from process to process
    if isinstance(r, tuple) and hasattr(r, '_fields'):
        return ('namedtuple', type(r).__name__, [(f, result_fp(getattr(r, f))) for f in r._fields])
    if isinstance(r, (list, tuple)):
        return (type(r).__name__, [result_fp(e) for e in r])
    if isinstance(r, dict):
        return ('dict', [(repr(k), result_fp(v)) for k, v in sorted(r.items(), key=lambda kv: repr(kv[0]))])
    return fpm.fp_any(r)


def make_beads(F, dk, rng_seed):
    g = np.random.default_rng(rng_seed)
    mef = np.array([0, 800, 2500, 8000, 25000, 80000.])
    rfi = np.exp((np.log(mef + 300.) - 2.0) / 1.05)
    rows = []
    per = 60
    for k in range(6):
        fl = rfi[k] * np.exp(g.normal(0, 0.04, per))
        x = np.clip(np.round(1024 / 4. * np.log10(fl)), 0, 1023)
        rows.append(np.c_[np.clip(g.normal(500, 30, per), 1, 1022), np.clip(g.normal(400, 30, per), 1, 1022), x,
                          np.clip(x * 0.9 + g.normal(0, 3, per), 0, 1023), np.zeros(per)])
    ev = np.vstack(rows).astype(int)
    g.shuffle(ev)
    ev[:, 4] = np.arange(len(ev))
    spec = {'version': 'FCS3.0', 'datatype': 'I', 'byteord': '1,2,3,4', 'widths': [16] * 5,
            'ranges': [1024, 1024, 1024, 1024, 65536], 'names': list(CH), 'delim': '/', 'order': ['TEXT', 'DATA'],
            'pne': ['0,0', '0,0', '4,1', '4,1', '0,0'], 'events': ev.tolist(), 'extra': [['$TIMESTEP', '0.1']]}
    b, _ = fcs_ref.build(spec)
    dk.write('beads.fcs', b)
    return dk.materialise('beads.fcs')


class C13Machine(Machine):
    prop = 'C13'
    level = 'exploration'
    per_run_timeout = 900
    rule = ('each run is a history of 2..8 calls into the public surface of io, transform, gate, stats, mef, plot and FCSData '
            '(callables enumerated from the modules at run time; argument shapes: loaded / RFI / MEF / float samples, sliced '
            'view and its parent, single-channel sample, plain int and float arrays, every scale, scalar vs list arguments, '
            'caller-owned bins lists, population lists and parameter dicts) with all arguments and all pool objects '
            'fingerprinted bit-exactly before and after each call, results cross-mutated with inputs, and every answer '
            'compared with the answer of a never-used twin; thorough additionally walks ordered pairs of calls on the same '
            'object; distinct = distinct (callable, argument-shape id, object kind, outcome) tuples')
    real_components = ['every FlowCal callable (real)', 'matplotlib Agg rendering for plot calls (real, figures closed by the harness)',
                       'scikit-learn GaussianMixture (real, global RNG owned by the simulator)']
    stubbed_components = ['none']
    not_modelled = ['no fault dimension beyond calls that raise (held to the same no-mutation standard)']
    assumptions = ['file position of buffer arguments is not part of the fingerprint',
                   'lists returned by accessors are allowed to alias stored state (the property speaks about samples)']

    SANDWICH = [(o, m) for o in ('raw', 'rfi', 'mef', 'rawf', 'col', 'tfm')
                for m in ({'kind': 'values', 'col': 2, 'delta': 300}, {'kind': 'range', 'col': 2, 'end': 1, 'value': 9999.0},
                          {'kind': 'range', 'col': 2, 'end': 0, 'value': -50.0})]

    # quick: one sixth of the first calls (every object kind, every 6th first call); thorough: every ordered pair
    N_PAIR_RUNS = {'quick': 7 * 22, 'thorough': 7 * 86}

    def plan(self, tier):
        if tier == 'quick':
            return {'runs': 154 + 18 + 4200, 'budget_s': 110, 'batch': 6}
        return {'runs': 602 + 18 + 320000, 'budget_s': 1700, 'batch': 12}

    def generate(self, rng, tier, index):
        spec = gen_pool_spec(rng.sub('spec'))
        fspec = copy.deepcopy(spec)
        fspec['datatype'] = 'F'
        fspec['widths'] = [32] * 5
        fspec['events'] = [[float(v) - (50.0 if j in (2, 3) else 0.0) for j, v in enumerate(r)] for r in spec['events']]
        plots = rng.chance(0.25)
        npairs = self.N_PAIR_RUNS.get(tier, 0)
        if npairs <= index < npairs + len(self.SANDWICH):
            # query, caller-side in-place edit of the object, the same query again - for every canonical query
            obj, mop = self.SANDWICH[index - npairs]
            return {'arm': 'sandwich', 'obj': obj, 'mop': dict(mop, fn='mutate', obj=obj), 'spec': spec, 'fspec': fspec,
                    'seed': rng.randint(0, 2 ** 31 - 1)}
        if index < self.N_PAIR_RUNS.get(tier, 0):
            objs = ['raw', 'rfi', 'mef', 'view', 'rawf', 'col', 'tfm']
            obj = objs[index % len(objs)]
            stride = 4 if tier == 'quick' else 1
            return {'arm': 'pairs', 'obj': obj, 'a': (index // len(objs)) * stride, 'spec': spec, 'fspec': fspec,
                    'seed': rng.randint(0, 2 ** 31 - 1)}
        if tier == 'thorough' and index % 3 == 0:
            # ordered pair of calls on the same object
            a = gen_call(rng, plots=False)
            b = gen_call(rng, plots=False)
            if 'obj' in a and 'obj' in b and b['obj'] not in ARRAYS and a['obj'] not in ARRAYS and a['obj'] != 'beads' \
                    and b['obj'] != 'beads':
                b['obj'] = a['obj']
                for k in ('ch',):
                    if b['obj'] == 'col' and b.get(k) not in (None, 0, 'FL1-H'):
                        b[k] = None
            ops = [a, b]
        else:
            ops = [gen_call(rng, plots=plots) for _ in range(rng.randint(2, 8))]
        return {'spec': spec, 'fspec': fspec, 'ops': ops, 'seed': rng.randint(0, 2 ** 31 - 1)}

    def summarise(self, case):
        if case.get('arm') == 'sandwich':
            return {'arm': 'sandwich', 'obj': case['obj'], 'edit': case['mop']}
        if case.get('arm') == 'pairs':
            return {'arm': 'pairs', 'obj': case['obj'], 'first_call': canonical_queries(case['obj'])[case['a'] % len(canonical_queries(case['obj']))]}
        return {'ops': case['ops'], 'n_events': len(case['spec']['events']), 'version': case['spec']['version']}

    # ------------------------------------------------------------------
    def public_surface(self, F):
        names = []
        for mod in (F.io, F.transform, F.gate, F.stats, F.mef, F.plot):
            for n, f in sorted(vars(mod).items()):
                if n.startswith('_') or not callable(f) or getattr(f, '__module__', None) != mod.__name__:
                    continue
                if inspect.isclass(f) and issubclass(f, tuple):
                    continue
                names.append(mod.__name__.split('.')[-1] + '.' + n)
        for n, m in sorted(vars(F.io.FCSData).items()):
            if not n.startswith('_') and (callable(m) or isinstance(m, property)):
                names.append('FCSData.' + n)
        return names

    def execute(self, case):
        import FlowCal as F
        import matplotlib.pyplot as plt
        log = OpLog()
        out = {'violations': [], 'sigs': set(), 'faults': {}, 'probes': {}, 'evals': 0, 'components': {}}
        V = out['violations']

        def bump(d, k, n=1):
            d[k] = d.get(k, 0) + n

        dk = simdisk.SimDisk('c13')
        try:
            b, _ = fcs_ref.build(case['spec'])
            bf, _ = fcs_ref.build(case['fspec'])
            dk.write('s.fcs', b)
            dk.write('f.fcs', bf)
            paths = (dk.materialise('s.fcs'), dk.materialise('f.fcs'))
            covered = set()
            if case.get('arm') == 'pairs':
                # every canonical query b after the canonical query a, on the same object of a fresh pool
                canon = canonical_queries(case['obj'])
                a = canon[case['a'] % len(canon)]
                histories = [[a, bq] for bq in canon]
                bump(out['probes'], 'ordered_pairs_walked', len(histories))
            elif case.get('arm') == 'sandwich':
                canon = canonical_queries(case['obj'])
                mop = dict(case['mop'])
                if case['obj'] == 'col':
                    mop['col'] = 0
                histories = [[bq, mop, bq] for bq in canon]
                bump(out['probes'], 'query_edit_query_histories', len(histories))
            else:
                histories = [case['ops']]
            for ops in histories:
                self.run_history(F, plt, dk, paths, ops, case['seed'], out, log, covered)
                if V:
                    break
            for lbl in covered:
                bump(out['components'], 'called:' + lbl)
        finally:
            dk.teardown()
        out['digest'] = log.digest()
        out['summary'] = {'violations': len(V)}
        return out


    def run_history(self, F, plt, dk, paths, ops, seed, out, log, covered):
        """one history on a fresh pool; appends to out['violations'] and stops at the first violation"""
        V = out['violations']

        def bump(d, k, n=1):
            d[k] = d.get(k, 0) + n

        pool = Pool(F, paths[0], paths[1])
        beads_path = None
        for n, op in enumerate(ops):
            out['evals'] += 1
            name = op.get('obj') or op.get('src')
            if name == 'beads':
                if beads_path is None:
                    beads_path = make_beads(F, dk, 7)
                if 'beads' not in pool.obj:
                    pool.obj['beads'] = F.transform.to_rfi(F.io.FCSData(beads_path), CH[:4])
                target = pool.obj['beads']
            elif name is not None:
                target = pool.get(name)
            else:
                target = None
            if op['fn'] == 'mutate':
                try:
                    apply_mutation(target, op)
                    pool.mutlog.setdefault(name, []).append(op)
                    log.add('caller-mutation', name, op['kind'])
                    bump(out['probes'], 'caller_side_mutations')
                except Exception as e:
                    log.add('caller-mutation-refused', name, op['kind'], type(e).__name__)
                continue
            try:
                call = build_call(F, op, target, pool)
            except Exception as e:
                # building the arguments needed a FlowCal call that raised: not this step's subject
                log.add('build-failed', op['fn'], type(e).__name__)
                bump(out['probes'], 'call_could_not_be_formed')
                continue
            covered.add(call.label)
            watch = [w for w in call.watch]
            pool_names = sorted(pool.obj)
            before_args = [fpm.fp_any(w) for w in watch]
            before_ids = [ident(w) for w in watch]
            before_pool = {k: fpm.fp_any(pool.obj[k]) for k in pool_names}
            seams.seed_global_rng(seed + n)
            try:
                res = call.fn(*call.args, **call.kwargs)
                rk = 'ok'
            except Exception as e:
                res = None
                rk = 'exc:' + type(e).__name__
            plt.close('all')
            okind = ('sample' if is_sample(target) else 'array' if isinstance(target, np.ndarray) else 'none')
            shape_id = fpm.digest({k: (v if not isinstance(v, (list, dict)) else type(v).__name__ + str(len(v)))
                                   for k, v in op.items() if k not in ('obj',)})[:8]
            sig = '%s|%s|%s|%s' % (call.label, name, shape_id, rk.split(':')[0])
            out['sigs'].add(sig)
            site = '%s/%s' % (call.label, op.get('scale') if isinstance(op.get('scale'), str) else
                              (op.get('bins') if isinstance(op.get('bins'), str) else okind))
            # (1) arguments and pool unchanged
            after_args = [fpm.fp_any(w) for w in watch]
            after_ids = [ident(w) for w in watch]
            for i, (x, y) in enumerate(zip(before_args, after_args)):
                if x != y:
                    V.append(violation('C13/arg-mutated', site,
                                       'step %d %s(%s): argument %d (%s) changed by the call (%s)' % (
                                           n, call.label, {k: v for k, v in op.items()}, i, type(watch[i]).__name__, rk)))
                    break
            else:
                for i, (x, y) in enumerate(zip(before_ids, after_ids)):
                    if x != y:
                        V.append(violation('C13/arg-identity', site,
                                           'step %d %s: elements of caller-owned %s were replaced' % (
                                               n, call.label, type(watch[i]).__name__)))
                        break
            for k in pool_names:
                if fpm.fp_any(pool.obj[k]) != before_pool[k]:
                    df = fpm.diff_fields(before_pool[k][1], fpm.fp_any(pool.obj[k])[1]) \
                        if is_sample(pool.obj[k]) else ['values']
                    V.append(violation('C13/pool-mutated', site + '/' + '+'.join(df),
                                       'step %d %s(%s) changed pool object %r fields %s' % (n, call.label, op, k, df)))
                    break
            rfp = result_fp(res) if rk == 'ok' else None
            log.add('call', n, call.label, name, rk, fpm.digest(rfp))
            if V:
                break
            # (3) history independence: same call on a never-used twin
            if name is not None and name != 'beads' and n > 0:
                try:
                    twin = pool.fresh(name)
                    call2 = build_call(F, op, twin, pool)
                    seams.seed_global_rng(seed + n)
                    try:
                        res2 = call2.fn(*call2.args, **call2.kwargs)
                        rk2 = 'ok'
                    except Exception as e:
                        res2, rk2 = None, 'exc:' + type(e).__name__
                    plt.close('all')
                    rfp2 = result_fp(res2) if rk2 == 'ok' else None
                    if rk2 != rk or rfp2 != rfp:
                        V.append(violation('C13/history-dependent', site,
                                           'step %d %s(%s) on %r answers differently after the history %s than on a fresh '
                                           'object (%s vs %s)' % (n, call.label, op, name,
                                                                  [o['fn'] for o in ops[:n]], rk, rk2)))
                        break
                    bump(out['probes'], 'twin_comparisons')
                except Exception as e:
                    bump(out['probes'], 'twin_could_not_be_formed')
            # (2) results that are samples share no mutable state with inputs
            if rk == 'ok':
                rs = samples_in(res if not (isinstance(res, tuple) and hasattr(res, '_fields')) else list(res))
                ins = [w for w in samples_in(watch)]
                for r in rs[:2]:
                    if any(r is i for i in ins) or not ins:
                        continue
                    bad = self.cross_mutate(r, ins, call.shares)
                    bump(out['probes'], 'cross_mutation_checks')
                    if bad:
                        V.append(violation('C13/result-shares-state', site + '/' + bad,
                                           'step %d %s(%s): %s' % (n, call.label, op, bad)))
                        break
                if V:
                    break
    def finalise_evidence(self, cov):
        import FlowCal as F
        surf = self.public_surface(F)
        called = {k.split(':', 1)[1] for k in cov.get('components', {}) if k.startswith('called:')}
        called |= {'io.FCSData'}       # every pool object is built through the constructor
        cov['public_surface'] = len(surf)
        cov['public_surface_uncovered'] = sorted(set(surf) - called)

    def cross_mutate(self, r, ins, shares):
        """mutate result -> inputs unchanged; mutate inputs' metadata -> result unchanged. Restores everything."""
        fin = [fpm.fp_any(i) for i in ins]
        saved_vals = None
        rv = r.view(np.ndarray)
        if shares == 'none' and r.size:
            saved_vals = rv.flat[0]
            rv.flat[0] = saved_vals + 1
        rr = None
        try:
            rr = r.range()
        except Exception:
            pass
        saved_r = None
        if isinstance(rr, list) and rr and isinstance(rr[0], list) and rr[0]:
            saved_r = rr[0][0]
            rr[0][0] = -98765.0
        try:
            r.text['__verif__'] = 'm'
        except Exception:
            pass
        bad = None
        for i, f in zip(ins, fin):
            f2 = fpm.fp_any(i)
            if f2 != f:
                bad = 'mutating-result-changed-input:' + '+'.join(fpm.diff_fields(f[1], f2[1]))
                break
        # undo
        if saved_vals is not None:
            rv.flat[0] = saved_vals
        if saved_r is not None:
            rr[0][0] = saved_r
        try:
            del r.text['__verif__']
        except Exception:
            pass
        if bad:
            return bad
        # reverse direction: metadata (and values unless a shared buffer is allowed)
        fr = fpm.fp_any(r)
        for i in ins:
            ir = i.range()
            s_r = None
            if isinstance(ir, list) and ir and isinstance(ir[0], list) and ir[0]:
                s_r = ir[0][0]
                ir[0][0] = -4321.0
            i.text['__verif_in__'] = 'm'
            s_v = None
            iv = i.view(np.ndarray)
            if shares == 'none' and i.size:
                s_v = iv.flat[0]
                iv.flat[0] = s_v + 1
            f2 = fpm.fp_any(r)
            if s_v is not None:
                iv.flat[0] = s_v
            del i.text['__verif_in__']
            if s_r is not None:
                ir[0][0] = s_r
            if f2 != fr:
                return 'mutating-input-changed-result:' + '+'.join(fpm.diff_fields(fr[1], f2[1]))
        return None

    def shrink_candidates(self, case):
        if case.get('arm') == 'sandwich':
            for bq in canonical_queries(case['obj']):
                c = {k: v for k, v in case.items() if k not in ('arm', 'obj', 'mop')}
                c['ops'] = [bq, case['mop'], bq]
                yield c
            return
        if case.get('arm') == 'pairs':
            canon = canonical_queries(case['obj'])
            a = canon[case['a'] % len(canon)]
            for bq in canon:
                c = {k: v for k, v in case.items() if k not in ('arm', 'obj', 'a')}
                c['ops'] = [a, bq]
                yield c
            return
        for ops in list_reductions(case['ops'], 1):
            c = copy.deepcopy(case)
            c['ops'] = ops
            yield c
