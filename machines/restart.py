"""C20: a sample survives copying, viewing and pickling in any analysis state.

Two lineages start from the same generated file: P is never restarted, R is "crashed and
restarted" at PRNG-chosen points -- by copy(), copy.copy, copy.deepcopy, view(), or pickle
protocol 0..5 THROUGH THE SIMULATED DISK (the live object is dropped, only the bytes survive;
optionally the bytes are restored in a fresh interpreter). Between restarts both lineages
receive the same analysis operation. After every step fingerprint(P) == fingerprint(R); after
every restart a throw-away second clone is mutated and the source must not change.
Separately: FCSFile equality/hash as a storage history (load, load, rewrite, load)."""
import copy
import functools
import os
import pickle
import subprocess
import sys

import numpy as np

from machines import Machine, violation, fcsgen, fcsload
from machines.metadata import C17Machine
from models import fcs_ref
from models import fingerprint as fpm
from sim import disk as simdisk
from sim import seams
from sim.oplog import OpLog
from sim.shrink import list_reductions

RESTARTS = ['copy', 'copy.copy', 'deepcopy', 'view'] + ['pickle%d' % p for p in range(6)]
VERIF = os.path.dirname(os.path.dirname(os.path.abspath(__file__)))


def powerlaw(m, b, x):
    """synthetic increasing standard curve (module level so that nothing unpicklable is created)"""
    return np.exp(b) * np.sign(x) * np.abs(x) ** m


def resolve_channels(d, names):
    have = list(d.channels)
    return [n for n in names if n in have]


def apply_op(F, d, op):
    """Applies one analysis op; returns new object. Exceptions propagate to the caller."""
    k = op['op']
    if k == 'slice_channels':
        if d.ndim != 2:
            raise IndexError('not 2-D')
        D = d.shape[1]
        form = op['form']
        if form == 'names':
            key = resolve_channels(d, op['names']) or [d.channels[0]]
        elif form == 'positions':
            key = [p % D if p >= 0 else -((-p - 1) % D) - 1 for p in op['positions']]
        elif form == 'mixed':
            key = [(n if i % 2 else list(d.channels).index(n))
                   for i, n in enumerate(resolve_channels(d, op['names']) or [d.channels[0]])]
        elif form == 'slice':
            key = slice(op['start'], op['stop'], op['step'])
        elif form == 'single':
            nm = resolve_channels(d, op['names'])
            key = nm[0] if nm else d.channels[0]
        else:
            key = tuple(resolve_channels(d, op['names']) or [d.channels[0]])
        return d[:, key]
    if k == 'slice_events':
        form = op['form']
        if form == 'slice':
            return d[slice(op['start'], op['stop'], op['step'])]
        if form == 'mask':
            n = d.shape[0]
            return d[(np.arange(n) % op['k']) == op['r']]
        if form == 'list':
            n = d.shape[0]
            return d[[i % n for i in op['idx']]] if n else d[[]]
        raise ValueError(form)
    if k == 'to_rfi':
        if op.get('positions') is not None:
            D = d.shape[1]
            return F.transform.to_rfi(d, sorted({p % D for p in op['positions']}))
        return F.transform.to_rfi(d, resolve_channels(d, op['names']))
    if k == 'to_mef':
        if op.get('positions') is not None:
            D = d.shape[1]
            chs = sorted({p % D for p in op['positions']})
        else:
            chs = resolve_channels(d, op['names'])
        scs = [functools.partial(powerlaw, m, b) for m, b in (op['params'] * 3)[:len(chs)]]
        return F.transform.to_mef(d, chs, scs, chs)
    if k == 'start_end':
        return F.gate.start_end(d, num_start=op['a'], num_end=op['b'])
    if k == 'high_low':
        chs = resolve_channels(d, op['names'])
        return F.gate.high_low(d, channels=chs or None)
    if k == 'ellipse':
        chs = resolve_channels(d, op['names'])[:2]
        return F.gate.ellipse(d, chs, center=op['center'], a=op['a'], b=op['b'], theta=op['theta'], log=False)
    if k == 'density2d':
        chs = resolve_channels(d, op['names'])[:2]
        return F.gate.density2d(d, channels=chs, bins=op['bins'], gate_fraction=op['f'],
                                xscale=op['scale'], yscale=op['scale'], sigma=op['sigma'])
    raise ValueError(k)


def gen_op(rng, chs):
    """chs: names known to exist (generator-side view of the channel set)."""
    k = rng.wchoice([('slice_channels', 3), ('slice_events', 3), ('to_rfi', 3), ('to_mef', 2),
                     ('start_end', 1), ('high_low', 2), ('ellipse', 1), ('density2d', 2)])
    sub = lambda lo: rng.sample(chs, rng.randint(min(lo, len(chs)), len(chs)))
    if k == 'slice_channels':
        form = rng.choice(['names', 'positions', 'mixed', 'slice', 'tuple', 'single'])
        op = {'op': k, 'form': form, 'names': sub(1)}
        if form == 'positions':
            op['positions'] = [rng.randint(-len(chs), len(chs) - 1) for _ in range(rng.randint(1, len(chs)))]
        if form == 'slice':
            op.update(start=rng.choice([None, 0, 1, -2]), stop=rng.choice([None, -1, 3, 2]),
                      step=rng.choice([None, 1, 2, -1]))
        return op
    if k == 'slice_events':
        form = rng.choice(['slice', 'mask', 'list'])
        op = {'op': k, 'form': form}
        if form == 'slice':
            op.update(start=rng.choice([None, 0, 1, 3, -4]), stop=rng.choice([None, -1, 9, 6]),
                      step=rng.choice([None, 1, 2, 3, -1]))
        elif form == 'mask':
            kk = rng.randint(1, 3)
            op.update(k=kk, r=rng.randint(0, kk - 1))
        else:
            op['idx'] = [rng.randint(0, 50) for _ in range(rng.randint(0, 6))]
        return op
    if k == 'to_rfi':
        op = {'op': k, 'names': sub(1)}
        if rng.chance(0.35):
            op['positions'] = [rng.randint(0, 7) for _ in range(rng.randint(1, 2))]
        return op
    if k == 'to_mef':
        names = sub(1)
        op = {'op': k, 'names': names,
              'params': [[round(0.9 + 0.3 * rng.rand(), 3), round(rng.rand() * 4, 3)] for _ in names]}
        if rng.chance(0.35):
            op['positions'] = [rng.randint(0, 7) for _ in range(rng.randint(1, 2))]
        return op
    if k == 'start_end':
        return {'op': k, 'a': rng.randint(0, 3), 'b': rng.randint(0, 3)}
    if k == 'high_low':
        return {'op': k, 'names': sub(0)}
    if k == 'ellipse':
        return {'op': k, 'names': sub(2), 'center': [rng.randint(0, 600), rng.randint(0, 600)],
                'a': rng.randint(50, 5000), 'b': rng.randint(50, 5000), 'theta': round(rng.rand() * 3, 3)}
    return {'op': k, 'names': sub(2), 'bins': rng.choice([4, 8, 16]), 'f': rng.choice([0.3, 0.5, 0.8, 1.0]),
            'scale': rng.choice(['linear', 'logicle']), 'sigma': rng.choice([0.5, 1.0, 2.0])}


_CHILD = r"""
import sys, pickle
sys.path.insert(0, %r); sys.path.insert(0, %r)
import warnings; warnings.simplefilter('ignore')
import FlowCal
from models import fingerprint as fpm
obj = pickle.load(open(sys.argv[1], 'rb'))
st = fpm.sample_state(obj, exact=False)
pickle.dump((fpm.digest(st), obj), open(sys.argv[2], 'wb'), protocol=5)
"""


class C20Machine(Machine):
    prop = 'C20'
    level = 'exploration'
    per_run_timeout = 600
    rule = ('each run loads one generated file (C01 layouts, C17 keyword lattice) into two lineages; up to 3 analysis ops '
            '(slice channels, slice events, to RFI, to MEF, start/end, high/low, ellipse, density gate) are applied to '
            'both, and the R lineage is restarted at seeded points by copy / copy.copy / deepcopy / view / pickle protocol '
            '0..5 through the simulated disk (a fraction restored in a fresh interpreter); fingerprints of both lineages '
            'are compared after every step and clones are mutated to prove independence; plus a load / load / rewrite / '
            'load storage history for FCSFile equality and hashing; distinct = distinct (ops so far, ndim, dtype kind, '
            'restart kind) tuples')
    real_components = ['FlowCal.io.FCSData.__reduce__/__setstate__/__array_finalize__ (real)', 'pickle, copy (real)',
                       'FlowCal.transform / gate ops (real)', 'FCSFile.__eq__/__hash__ (real)']
    stubbed_components = ['process crash: the live object is dropped and only pickle bytes on the simulated disk survive; '
                          'a fraction of restores run in a genuinely fresh interpreter']
    not_modelled = ['torn pickle files (no listed property speaks about them)']
    assumptions = ['dtype compared by kind and width, values numerically (NumPy normalises byte order when pickling)',
                   'float files for the equality clause contain no NaN']

    def plan(self, tier):
        if tier == 'quick':
            return {'runs': 2400, 'budget_s': 100, 'batch': 20}
        return {'runs': 150000, 'budget_s': 1500, 'batch': 40}

    def generate(self, rng, tier, index):
        base = C17Machine().generate(rng.sub('spec'), tier, index)
        spec = base['spec']
        # at least 2 channels and a handful of events so that gates have something to do
        if len(spec['widths']) < 2 or len(spec['events']) < 5 or rng.chance(0.5):
            D = rng.randint(2, 5)
            names = ['FSC-H', 'SSC-H', 'FL1-H', 'FL2-H', 'Time'][:D]
            s2 = fcsgen.gen_spec(rng, names=names, n_params=D, n_events=rng.choice([5, 8, 13, 21, 40]),
                                 keywords=True, datatype=rng.wchoice([('I', 6), ('F', 2), ('D', 2)]))
            s2['extra'] = [kv for kv in (spec.get('extra') or [])
                           if not any(ch.isdigit() for ch in kv[0][2:4]) or int(''.join(c for c in kv[0] if c.isdigit()) or 0) <= D + 12]
            s2['pne'] = [rng.choice(['0,0', '4,1', '4,0', '4.5,0.1']) for _ in range(D)]
            if s2['datatype'] == 'I':
                # moderate widths so that event values are plausible detector readings
                s2['widths'] = [rng.choice([16, 32]) for _ in range(D)]
                s2['ranges'] = [rng.choice([1024, 4096, 65536]) for _ in range(D)]
                s2['events'] = fcsgen.gen_events(rng, s2, len(s2['events']))
            spec = s2
        chs = list(spec['names'])
        if len(set(chs)) != len(chs):
            chs = list(dict.fromkeys(chs))
        ops = []
        n_ops = rng.randint(0, 3)
        plan = ['restart'] * rng.randint(1, 3) + ['op'] * n_ops
        rng.shuffle(plan)
        cur = list(chs)
        for p in plan:
            if p == 'restart':
                kind = rng.choice(RESTARTS)
                fresh = kind.startswith('pickle') and rng.chance(0.02 if tier == 'quick' else 0.05)
                ops.append({'op': 'restart', 'kind': kind, 'fresh': bool(fresh)})
            else:
                op = gen_op(rng, cur)
                ops.append(op)
                if op['op'] == 'slice_channels' and op['form'] in ('names', 'mixed', 'tuple'):
                    cur = [n for n in op['names'] if n in cur] or cur[:1]
                elif op['op'] == 'slice_channels':
                    pass     # generator keeps a superset; executor resolves names that still exist
        if rng.chance(0.08) and len(chs) >= 2:
            # scenario: a positional slice that repeats a column, a conversion that addresses only ONE of the
            # copies by position, then restarts - the two equally named columns now carry different metadata
            a, b = rng.sample(range(len(chs)), 2)
            pos = [a, b, a] if rng.chance(0.5) else [b, a, a]
            conv = rng.choice(['to_rfi', 'to_mef'])
            op2 = {'op': conv, 'names': [], 'positions': [len(pos) - 1]}
            if conv == 'to_mef':
                op2['params'] = [[1.07, 1.5]]
            ops = [{'op': 'slice_channels', 'form': 'positions', 'names': [], 'positions': pos}, op2,
                   {'op': 'restart', 'kind': rng.choice(RESTARTS), 'fresh': False},
                   {'op': 'restart', 'kind': rng.choice(RESTARTS), 'fresh': False}]
        eqop = None
        if rng.chance(0.5):
            eqop = rng.choice(['same', 'event', 'keyword', 'analysis', 'late_event'])
        case = {'spec': spec, 'ops': ops, 'eq': eqop, 'eqseed': rng.randint(0, 10 ** 6)}
        if rng.chance(0.12):
            case['fileobj'] = True
            case['close_handles'] = rng.chance(0.5)
            for o in ops:
                if o['op'] == 'restart' and o['kind'].startswith('pickle'):
                    o['kind'] = rng.choice(['copy', 'copy.copy', 'deepcopy', 'view'])
                    o['fresh'] = False
        return case

    def summarise(self, case):
        c = copy.deepcopy(case)
        ev = c['spec']['events']
        c['spec']['events'] = ev[:2] + (['... %d rows' % len(ev)] if len(ev) > 2 else [])
        return c

    # ------------------------------------------------------------------
    def restart(self, F, dk, R, op, out, log):
        kind = op['kind']
        if kind == 'copy':
            return R.copy()
        if kind == 'copy.copy':
            return copy.copy(R)
        if kind == 'deepcopy':
            return copy.deepcopy(R)
        if kind == 'view':
            return R.view()
        proto = int(kind[-1])
        dk.write('obj.pkl', pickle.dumps(R, protocol=proto))
        path = dk.materialise('obj.pkl')
        out['faults']['crash_restart_from_pickle'] = out['faults'].get('crash_restart_from_pickle', 0) + 1
        if op.get('fresh'):
            outp = dk.path('obj.out')
            import FlowCal
            repo = os.path.dirname(os.path.dirname(os.path.abspath(FlowCal.__file__)))
            r = subprocess.run([sys.executable, '-c', _CHILD % (repo, VERIF), path, outp],
                               capture_output=True, text=True, timeout=300)
            if r.returncode != 0:
                raise RuntimeError('restore in fresh interpreter failed: ' + r.stderr[-500:])
            dig, obj = pickle.load(open(outp, 'rb'))
            out['probes']['restored_in_fresh_interpreter'] = out['probes'].get('restored_in_fresh_interpreter', 0) + 1
            log.add('fresh', dig)
            return obj, dig
        return pickle.loads(dk.read_back('obj.pkl'))

    def execute(self, case):
        import FlowCal as F
        log = OpLog()
        out = {'violations': [], 'sigs': set(), 'faults': {}, 'probes': {}, 'evals': 0}
        V = out['violations']
        spec = case['spec']
        b, info = fcs_ref.build(spec)
        dk = simdisk.SimDisk('c20')

        def bump(d, k, n=1):
            d[k] = d.get(k, 0) + n

        try:
            dk.write('f.fcs', b)
            path = dk.materialise('f.fcs')
            handles = []
            try:
                if case.get('fileobj'):
                    # documented alternative: the caller hands in an open binary file (such a sample cannot be
                    # pickled - the handle is part of it - so only the in-memory restarts apply)
                    handles = [open(path, 'rb'), open(path, 'rb')]
                    P = F.io.FCSData(handles[0])
                    R = F.io.FCSData(handles[1])
                    if any(h.closed for h in handles):
                        V.append(violation('C20/file-eq', 'fileobj/handle-closed-by-reader',
                                           'loading from an open file object closed the caller\'s handle'))
                    else:
                        # two loads of the same file through the same handle compare equal
                        try:
                            f1 = F.io.FCSFile(handles[0])
                            f2 = F.io.FCSFile(handles[0])
                            if not (f1 == f2) or (f1 != f2) or hash(f1) != hash(f2):
                                V.append(violation('C20/file-eq', 'fileobj/same-handle', 'two loads through one handle differ'))
                        except Exception as e:
                            V.append(violation('C20/file-eq', 'fileobj/second-load-raises/' + type(e).__name__, str(e)[:200]))
                    if case.get('close_handles'):
                        for h in handles:
                            h.close()
                    out['probes']['loaded_from_open_file_object'] = 1
                else:
                    P = F.io.FCSData(path)
                    R = F.io.FCSData(path)
            except Exception as e:
                # not this property's business (C01/C17): record and stop
                log.add('load-failed', type(e).__name__)
                out['probes']['load_failed'] = 1
                out['digest'] = log.digest()
                out['evals'] = 1
                return out
            # two loads of the same file are independent objects: annotating a third, throw-away load must not
            # show in the lineages loaded before it, and a load made afterwards equals them
            if not case.get('fileobj'):
                try:
                    p0 = fpm.sample_state(P, exact=False)
                    X0 = F.io.FCSData(path)
                    X0.analysis['__verif_other_load__'] = 'x'
                    X0.text['__verif_other_load__'] = 'x'
                    if X0.size:
                        X0.view(np.ndarray).flat[0] = 0
                    Y0 = F.io.FCSData(path)
                    for nm, obj in (('earlier', P), ('later', Y0)):
                        df = fpm.diff_fields(p0, fpm.sample_state(obj, exact=False))
                        if df:
                            V.append(violation('C20/loads-not-independent', nm + '/' + '+'.join(df),
                                               'editing one load of a file changed the %s load of the same file in %s' % (nm, df)))
                    bump(out['probes'], 'independent_loads_checked')
                except Exception as e:
                    V.append(violation('C20/restart-raises', 'reload/' + type(e).__name__, str(e)[:200]))
            done = []
            last_restart = 'load'
            for op in case['ops']:
                out['evals'] += 1
                if op['op'] == 'restart':
                    last_restart = op['kind']
                    before = fpm.sample_state(R, exact=False)
                    src = R
                    fresh_digest = None
                    try:
                        res = self.restart(F, dk, R, op, out, log)
                    except RuntimeError:
                        raise
                    except Exception as e:
                        V.append(violation('C20/restart-raises', '%s/%s' % (op['kind'], type(e).__name__),
                                           'after ops %s: %s' % ([o['op'] for o in done], str(e)[:200])))
                        break
                    if isinstance(res, tuple):
                        res, fresh_digest = res
                    bump(out['faults'], 'restart:' + op['kind'])
                    # independence, first direction: the source's metadata is edited BEFORE anything of the new clone is
                    # read (a lazily copied field would still point at the source)
                    try:
                        src.text['__verif_early__'] = 'edited'
                        src.analysis['__verif_early__'] = 'edited'
                        rs0 = src.range()
                        saved0 = None
                        if isinstance(rs0, list) and rs0 and isinstance(rs0[0], list):
                            saved0 = rs0[0][0]
                            rs0[0][0] = -31337.0
                        early = fpm.sample_state(res, exact=False)
                        del src.text['__verif_early__']
                        del src.analysis['__verif_early__']
                        if saved0 is not None:
                            rs0[0][0] = saved0
                        df0 = [f_ for f_ in fpm.diff_fields(before, early) if f_ != 'values' or op['kind'] != 'view']
                        if df0:
                            V.append(violation('C20/clone-not-independent', '%s/source-edited-first/%s' % (op['kind'], '+'.join(df0)),
                                               'editing the source right after making a %s clone (before the clone was read) '
                                               'shows through in the clone fields %s' % (op['kind'], df0)))
                    except Exception as e:
                        V.append(violation('C20/restart-raises', '%s/independence/%s' % (op['kind'], type(e).__name__), str(e)[:200]))
                    # second direction: mutate a throw-away second clone, source must not change
                    try:
                        if op['kind'].startswith('pickle'):
                            clone = pickle.loads(pickle.dumps(src, protocol=int(op['kind'][-1])))
                        else:
                            clone = self.restart(F, dk, src, op, out, log)
                        shares_buffer = op['kind'] == 'view'
                        if clone.size and not shares_buffer:
                            flat = clone.view(np.ndarray).reshape(-1)
                            flat[0] = flat[0] + 1 if flat[0] == flat[0] else 0
                        rg = clone.range()
                        if isinstance(rg, list) and rg and isinstance(rg[0], list):
                            rg[0][0] = -12345.0
                            rg[0].append('junk')
                        elif isinstance(rg, list) and rg:
                            rg[0] = -12345.0
                        clone.text['__verif__'] = 'mutated'
                        clone.analysis['__verif__'] = 'mutated'
                        after = fpm.sample_state(src, exact=False)
                        df = fpm.diff_fields(before, after)
                        if df:
                            V.append(violation('C20/clone-not-independent', '%s/%s' % (op['kind'], '+'.join(df)),
                                               'mutating a %s clone changed the source fields %s (after ops %s)' % (
                                                   op['kind'], df, [o['op'] for o in done])))
                        # and the other direction: mutate the source's metadata, clone `res` must not see it
                        rb = fpm.sample_state(res, exact=False)
                        src.text['__verif_src__'] = 'mutated'
                        rs = src.range()
                        saved = None
                        if isinstance(rs, list) and rs and isinstance(rs[0], list):
                            saved = rs[0][0]
                            rs[0][0] = -777.0
                        ra = fpm.sample_state(res, exact=False)
                        del src.text['__verif_src__']
                        if saved is not None:
                            rs[0][0] = saved
                        df = fpm.diff_fields(rb, ra)
                        if df:
                            V.append(violation('C20/clone-not-independent', '%s/reverse/%s' % (op['kind'], '+'.join(df)),
                                               'mutating the source changed its %s clone' % op['kind']))
                    except Exception as e:
                        V.append(violation('C20/restart-raises', '%s/independence/%s' % (op['kind'], type(e).__name__),
                                           str(e)[:200]))
                    R = res
                    del src
                    if fresh_digest is not None:
                        pd = fpm.digest(fpm.sample_state(P, exact=False))
                        if pd != fresh_digest:
                            V.append(violation('C20/diverged', '%s/fresh-interpreter' % op['kind'],
                                               'fingerprint computed in a fresh interpreter differs from the never-restarted lineage'))
                else:
                    seams.seed_global_rng(case.get('eqseed', 0))
                    rp = rr = None
                    try:
                        P2 = apply_op(F, P, op)
                        rp = 'ok'
                    except Exception as e:
                        rp = 'exc:' + type(e).__name__
                    seams.seed_global_rng(case.get('eqseed', 0))
                    try:
                        R2 = apply_op(F, R, op)
                        rr = 'ok'
                    except Exception as e:
                        rr = 'exc:' + type(e).__name__
                    log.add('op', op['op'], rp, rr)
                    if rp != rr:
                        V.append(violation('C20/diverged', '%s/op-outcome/%s' % (last_restart, op['op']),
                                           'never-restarted lineage: %s, restarted lineage: %s (ops so far %s)' % (
                                               rp, rr, [o['op'] for o in done])))
                        break
                    if rp == 'ok':
                        P, R = P2, R2
                        done.append(op)
                    else:
                        bump(out['probes'], 'op_refused_in_both_lineages')
                    if not hasattr(P, 'channels'):
                        # a scalar or plain array came back (e.g. single cell): lineage ends
                        break
                sp = fpm.sample_state(P, exact=False)
                sr = fpm.sample_state(R, exact=False)
                log.add('state', op['op'], op.get('kind'), fpm.digest(sp), fpm.digest(sr))
                df = fpm.diff_fields(sp, sr)
                if df:
                    V.append(violation('C20/diverged', '%s/%s' % (last_restart, '+'.join(df)),
                                       'after %s (ops so far %s) the lineages differ in %s: P=%r R=%r' % (
                                           op['op'], [o['op'] for o in done], df,
                                           str({k: sp[k] for k in df})[:300], str({k: sr[k] for k in df})[:300])))
                    break
                if op['op'] == 'restart':
                    out['sigs'].add('%s|%s|%d|%s' % ('>'.join(o['op'] for o in done[-3:]), op['kind'], P.ndim, P.dtype.kind))
                    if not R.flags['C_CONTIGUOUS']:
                        bump(out['probes'], 'restart_of_non_contiguous_state')
                    if R.ndim == 1:
                        bump(out['probes'], 'restart_of_1d_state')
                    if R.shape[0] == 0:
                        bump(out['probes'], 'restart_of_empty_state')
                    if done:
                        bump(out['probes'], 'restart_after_%d_ops' % len(done))

            # ---- storage history for file-level equality --------------------
            if case.get('eq'):
                self.eq_history(F, dk, case, spec, b, out, log)
        finally:
            for h in locals().get('handles', []):
                try:
                    h.close()
                except Exception:
                    pass
            dk.teardown()
        out['digest'] = log.digest()
        out['summary'] = {'violations': len(V)}
        return out

    def eq_history(self, F, dk, case, spec, b, out, log):
        V = out['violations']
        import random
        r = random.Random(case['eqseed'])
        has_nan = spec['datatype'] != 'I' and any(v != v for row in spec['events'] for v in row)
        if has_nan:
            return
        path = dk.materialise('f.fcs')
        try:
            a1 = F.io.FCSFile(path)
            a2 = F.io.FCSFile(path)
        except Exception:
            return
        out['evals'] += 2
        if not (a1 == a2) or (a1 != a2) or hash(a1) != hash(a2):
            V.append(violation('C20/file-eq', 'same-file', 'two loads of the same file: ==%s !=%s hash-equal=%s' % (
                a1 == a2, a1 != a2, hash(a1) == hash(a2))))
        kind = case['eq']
        if kind == 'same':
            log.add('eq', 'same')
            return
        if kind == 'late_event' and spec['datatype'] == 'I':
            # the same path re-written with ONE event changed far down a longer file
            big = copy.deepcopy(spec)
            n = 1100 + r.randrange(2000)
            big['events'] = [[(7 * i + 3 * j) % max(2, min(int(big['ranges'][j]), 1 << big['widths'][j])) for j in range(len(big['widths']))]
                             for i in range(n)]
            try:
                bb, _ = fcs_ref.build(big)
            except fcs_ref.LayoutError:
                return
            dk.write('f.fcs', bb)
            try:
                a1 = F.io.FCSFile(dk.materialise('f.fcs'))
            except Exception:
                return
            spec = big
            kind = 'event'
            late = True
        else:
            late = False
        s2 = copy.deepcopy(spec)
        changed = None
        if kind == 'event' and s2['events']:
            i = r.randrange(len(s2['events'])) if not late else len(s2['events']) - 1 - r.randrange(40)
            j = r.randrange(len(s2['widths']))
            if s2['datatype'] == 'I':
                bits = min(fcs_ref._mask_bits(s2['ranges'][j]), s2['widths'][j])
                if bits == 0:
                    return
                s2['events'][i][j] = int(s2['events'][i][j]) ^ (1 << r.randrange(bits))
            else:
                v = s2['events'][i][j]
                s2['events'][i][j] = 1.0 if v != 1.0 else 2.0
                if r.random() < 0.35:
                    s2['events'][i][j] = float('nan')        # the one differing event is "not a number" in one file only
                    out['probes']['differing_event_is_nan_in_one_file'] = 1
            changed = 'event' if not late else 'late-event'
        elif kind == 'keyword' and s2.get('extra'):
            i = r.randrange(len(s2['extra']))
            v = s2['extra'][i][1]
            s2['extra'][i][1] = ('Q' if v[0] != 'Q' else 'R') + v[1:]
            changed = 'keyword'
        elif kind == 'analysis' and s2.get('analysis') and s2.get('analysis_raw') is None:
            i = r.randrange(len(s2['analysis']))
            v = s2['analysis'][i][1]
            s2['analysis'][i][1] = ('Q' if v[0] != 'Q' else 'R') + v[1:]
            changed = 'analysis'
        if changed is None:
            return
        try:
            b2, _ = fcs_ref.build(s2)
        except fcs_ref.LayoutError:
            return
        dk.write('f.fcs', b2)               # same path, new content
        out['faults']['rewrite_same_path'] = out['faults'].get('rewrite_same_path', 0) + 1
        path = dk.materialise('f.fcs')
        try:
            a3 = F.io.FCSFile(path)
        except Exception:
            return
        out['evals'] += 1
        log.add('eq', changed, a1 == a3)
        if (a1 == a3) or not (a1 != a3):
            V.append(violation('C20/file-eq', 'differs-in-' + changed,
                               'files differing in one %s compare equal (==%s, !=%s)' % (changed, a1 == a3, a1 != a3)))
        out['sigs'].add('eq|' + changed)

    def shrink_candidates(self, case):
        for ops in list_reductions(case['ops'], 0):
            c = copy.deepcopy(case)
            c['ops'] = ops
            yield c
        if case.get('eq'):
            c = copy.deepcopy(case)
            c['eq'] = None
            yield c
        if case['ops']:
            c = copy.deepcopy(case)
            c['ops'] = []
            yield c
        for ev in list_reductions(case['spec']['events'], 2):
            c = copy.deepcopy(case)
            c['spec']['events'] = ev
            yield c
        ex = case['spec'].get('extra') or []
        for red in list_reductions(ex, 0):
            c = copy.deepcopy(case)
            c['spec']['extra'] = red
            yield c
        for i, op in enumerate(case['ops']):
            if op['op'] == 'restart' and op.get('fresh'):
                c = copy.deepcopy(case)
                c['ops'][i]['fresh'] = False
                yield c
