"""C01 (fault-free arm) and C16 (crash points x field faults) over the simulated disk.

System under simulation: FlowCal.io.FCSFile / FCSData reading a file whose bytes are
decided by the simulator (real open/seek/read/np.memmap on the materialised file,
through the recording open seam)."""
import copy
import warnings

import numpy as np

from machines import Machine, violation, fcsgen
from models import fcs_ref
from sim import disk as simdisk
from sim import seams
from sim.oplog import OpLog, arr_fp
from sim.shrink import list_reductions


def data_equal(a, t):
    """values, shape, numeric kind (and width for floats)"""
    a = np.asarray(a)
    if a.shape != t.shape:
        return False
    if a.dtype.kind != t.dtype.kind:
        return False
    if t.dtype.kind == 'f':
        if a.dtype.itemsize != t.dtype.itemsize:
            return False
        if a.size == 0:
            return True
        # NaN payloads are not compared (value conversion may quieten them); signed zeros are
        an, tn = np.isnan(a), np.isnan(t)
        if not np.array_equal(an, tn):
            return False
        return bool(np.array_equal(a[~an], t[~tn]) and np.array_equal(np.signbit(a[~an]), np.signbit(t[~tn])))
    if a.dtype.itemsize * 8 < 8:
        return False
    return a.size == 0 or bool(np.array_equal(a.astype('u8'), t.astype('u8')))


class Loader(object):
    """Boots the code under test on a materialised file."""

    def __init__(self, disk):
        import FlowCal
        self.F = FlowCal
        self.disk = disk
        self.io_events = []
        self.leaks = 0

    def load(self, name, cls='FCSFile', rewrite=True, fileobj=False, mmap_fail=False):
        # rewrite=False boots the code again on the very same materialised file (same inode, same mtime)
        path = self.disk.materialise(name) if rewrite else self.disk.path(name)
        ev = []
        seam = seams.OpenSeam(ev, root=self.disk.root)
        out = {'io': ev}
        fobj = None
        if fileobj == 'bytesio':
            # a file-like object without a file descriptor (zip member, upload): the reader may refuse it
            import io as _io
            path = _io.BytesIO(self.disk.files[name])
        elif fileobj:
            # documented alternative: the caller hands in an open binary file instead of a path
            fobj = open(path, 'rb')
            path = seams.RecFile(fobj, name, ev)
        import contextlib
        import errno

        def no_mmap(*a, **kw):
            # the system call fails: file systems without mmap support (some network / FUSE mounts) answer ENODEV
            ev.append(('mmap', name, 'ENODEV(injected)'))
            raise OSError(errno.ENODEV, 'No such device (injected)')
        mm = seams.patched(np, 'memmap', no_mmap) if mmap_fail else contextlib.nullcontext()
        with seams.patched(self.F.io, 'open', seam), mm:
            with warnings.catch_warnings(record=True) as w:
                warnings.simplefilter('always')
                try:
                    if cls == 'FCSFile':
                        f = self.F.io.FCSFile(path)
                        out.update(kind='ok', data=np.array(f.data), text=dict(f.text),
                                   analysis=dict(f.analysis))
                    else:
                        d = self.F.io.FCSData(path)
                        out.update(kind='ok', data=np.array(d.view(np.ndarray)), text=dict(d.text),
                                   analysis=dict(d.analysis), channels=d.channels, obj=d)
                except Exception as e:            # the call into FlowCal: outcome, not harness error
                    out.update(kind='exc', exc=type(e).__name__, msg=str(e)[:200])
            out['warnings'] = [str(x.message) for x in w]
        out['leaked'] = seam.close_leaked()
        if fobj is not None:
            out['caller_file_closed_by_reader'] = fobj.closed
            if not fobj.closed and out.get('kind') == 'ok':
                # the caller's handle is still his: a second load through it must give the same events
                try:
                    again = self.F.io.FCSFile(fobj)
                    out['second_load_same_handle'] = bool(np.array_equal(np.asarray(again.data), out['data']))
                except Exception as e:
                    out['second_load_same_handle'] = 'exc:' + type(e).__name__
            fobj.close()
        return out


def analysis_ok(o, want):
    if o['analysis'] == want:
        return True
    return o['analysis'] == {} and any('ANALYSIS segment could not be parsed' in m for m in o['warnings'])


def layout_class(spec):
    ws = spec['widths']
    wc = ('u%d' % ws[0]) if len(set(ws)) == 1 else 'mixed'
    return '%s/%s/%s/%s/%s/%s' % (
        spec['version'][3:], spec['datatype'],
        'BE' if spec['byteord'] in fcs_ref.BYTEORDS_BIG else 'LE', wc,
        'hdr' if spec.get('header_data', True) else 'txt',
        '+1' if spec.get('end_plus_one') else 'last')


# ===========================================================================
# C01
# ===========================================================================

class C01Machine(Machine):
    prop = 'C01'
    level = 'exploration'
    rule = ('each run generates one FCS file from a seeded layout spec (version x datatype x byte-order '
            'spelling x per-parameter widths x range class x HEADER/TEXT-only offsets x last-byte/one-past '
            'end x segment order x padding x 0..40 events) and loads it through FCSFile and FCSData with no '
            'fault; distinct = distinct (version, datatype, endianness, width class, offset placement, end '
            'convention, segment order, range classes) tuples among files with >= 1 event, plus distinct '
            'refused-layout kinds')
    real_components = ['FlowCal.io.FCSFile / FCSData (real)', 'open/seek/read/np.memmap on tmpfs (real, recorded)']
    stubbed_components = ['the instrument/exporter: files come from the reference writer models/fcs_ref.build']
    not_modelled = ['this arm injects no fault by design (see C16)']
    assumptions = ['ground truth comes from an independently written encoder (int.to_bytes / struct.pack)',
                   'NaN payloads are not generated']

    def plan(self, tier):
        if tier == 'quick':
            return {'runs': 60000, 'budget_s': 100, 'batch': 250}
        return {'runs': 3000000, 'budget_s': 1500, 'batch': 500}

    def generate(self, rng, tier, index):
        if index % 10 == 9:
            kind = rng.choice(['mode', 'datatype', 'unaligned', 'byteord'])
            spec = fcsgen.gen_spec(rng, datatype='I' if kind in ('datatype', 'unaligned') or rng.chance(0.6) else None)
            if kind == 'mode':
                spec['mode'] = rng.choice(['H', 'C', 'U'])
            elif kind == 'datatype':
                spec['datatype'] = 'A'
            elif kind == 'unaligned':
                spec['datatype'] = 'I'
                j = rng.randint(0, len(spec['widths']) - 1)
                spec['widths'] = [w if w in fcsgen.WIDTHS else 16 for w in spec['widths']]
                spec['widths'][j] = rng.choice([10, 12, 14, 20, 31, 33, 63])
                spec['ranges'] = [min(int(r), 1 << w) for r, w in zip(spec['ranges'], spec['widths'])]
                spec['events'] = [[int(v) % 16 for v in row] for row in
                                  fcsgen.gen_events(rng, dict(spec, datatype='I',
                                                              widths=[max(8, w) for w in spec['widths']]),
                                                    len(spec['events']))]
            else:
                spec['byteord'] = rng.choice(['3,4,1,2', '2,1,4,3', '2,3,4,1', '4,3,2,1,0', ''])
                if spec['byteord'] == '':
                    spec['byteord'] = '1,2,3'
            return {'arm': 'unsupported', 'kind': kind, 'spec': spec}
        case = {'arm': 'intact', 'spec': fcsgen.gen_spec(rng, bulk_p=0.0015), 'reload': rng.chance(0.3),
                'fileobj': rng.chance(0.15), 'bytesio': rng.chance(0.05)}
        if rng.chance(0.35) and case['reload']:
            case['reload'] = 'overwrite'          # storage history A instead of B (see execute)
        return case

    def summarise(self, case):
        s = dict(case['spec'])
        s['events'] = s['events'][:2] + (['... %d rows' % len(s['events'])] if len(s['events']) > 2 else [])
        return {'arm': case['arm'], 'kind': case.get('kind'), 'spec': s, 'reload': case.get('reload'),
                'fileobj': case.get('fileobj')}

    def execute(self, case):
        log = OpLog()
        spec = case['spec']
        b, info = fcs_ref.build(spec)
        dk = simdisk.SimDisk('c01')
        out = {'violations': [], 'sigs': set(), 'faults': {}, 'probes': {}, 'evals': 0}
        try:
            dk.write('f.fcs', b)
            ld = Loader(dk)
            lc = layout_class(spec)
            if case['arm'] == 'unsupported':
                o = ld.load('f.fcs')
                out['evals'] += 1
                log.add('load', 'unsupported', case['kind'], o['kind'], o.get('exc'))
                if o['kind'] != 'exc':
                    out['violations'].append(violation(
                        'C01/unsupported-not-refused', 'unsupported/' + case['kind'],
                        'layout %s decoded instead of refused' % case['kind']))
                out['sigs'].add('unsupported/%s/%s' % (case['kind'], o.get('exc')))
                out['probes']['unsupported_refused'] = 1
            else:
                T = info['truth']
                try:
                    if spec.get('bulk'):
                        out['probes']['large_file_%s' % spec['bulk'].get('kind')] = 1
                        raise fcs_ref.RefDontCare('reference loader not run on large files (pure-python decoding)')
                    r = fcs_ref.ref_load(b)
                    if not (data_equal(r['data'], T['data']) and r['text'] == T['text']
                            and r['analysis'] == T['analysis']):
                        raise RuntimeError('reference loader disagrees with writer ground truth')
                except fcs_ref.RefDontCare:
                    if not spec.get('bulk'):
                        out['probes']['ref_dontcare'] = 1
                if case.get('bytesio'):
                    for cls in ('FCSFile', 'FCSData'):
                        o = ld.load('f.fcs', cls, fileobj='bytesio')
                        out['evals'] += 1
                        log.add('load-bytesio', cls, o['kind'], o.get('exc'))
                        if o['kind'] == 'ok' and not (data_equal(o['data'], T['data']) and o['text'] == T['text']):
                            out['violations'].append(violation(
                                'C01/values', 'bytesio/%s/%s' % (cls, lc),
                                'a stream without file descriptor was accepted but decoded differently from the file'))
                        out['probes']['stream_without_fileno_' + ('accepted' if o['kind'] == 'ok' else 'refused')] = 1
                for cls in ('FCSFile', 'FCSData'):
                    o = ld.load('f.fcs', cls, fileobj=bool(case.get('fileobj')))
                    if case.get('fileobj'):
                        out['probes']['loaded_from_open_file_object'] = 1
                        if o.get('caller_file_closed_by_reader') or o.get('second_load_same_handle') not in (None, True):
                            out['violations'].append(violation(
                                'C01/values', 'fileobj/handle-reuse/%s' % cls,
                                'reader closed the caller\'s file object (%s) or a second load through the same handle '
                                'differs (%s)' % (o.get('caller_file_closed_by_reader'), o.get('second_load_same_handle'))))
                    out['evals'] += 1
                    log.add('load', cls, o['kind'], o.get('exc'),
                            arr_fp(o['data']) if o['kind'] == 'ok' else None, len(o['io']), o['leaked'])
                    site = 'intact/%s/%s' % (cls, lc)
                    if o['kind'] == 'exc':
                        out['violations'].append(violation(
                            'C01/supported-refused', site, '%s: %s' % (o['exc'], o['msg'])))
                        continue
                    if not data_equal(o['data'], T['data']):
                        got = np.asarray(o['data'])
                        det = 'shape %s vs %s' % (got.shape, T['data'].shape)
                        if got.shape == T['data'].shape and got.size:
                            bad = np.argwhere(got != T['data']) if got.size > 5000 else \
                                np.argwhere(got.astype(object) != T['data'].astype(object))
                            if len(bad):
                                i, j = bad[0]
                                det = 'first difference at event %d param %d: got %r expected %r (width %s range %s)' % (
                                    i, j, got[i, j], T['data'][i, j], spec['widths'][j], spec['ranges'][j])
                        out['violations'].append(violation('C01/values', site, det))
                    if o['text'] != T['text']:
                        out['violations'].append(violation('C01/text', site, 'TEXT dict differs'))
                    if o['analysis'] != T['analysis']:
                        out['violations'].append(violation('C01/analysis', site, 'ANALYSIS dict differs'))
                    if cls == 'FCSData' and tuple(o['channels']) != tuple(spec['names']):
                        out['violations'].append(violation('C01/columns', site, 'channel order differs'))
                    if o['leaked']:
                        out['probes']['fd_left_open_after_successful_load'] = \
                            out['probes'].get('fd_left_open_after_successful_load', 0) + 1
                # storage history: the same durable file booted again after the first sample was modified in memory
                if case.get('reload') and o['kind'] == 'ok' and o.get('obj') is not None:
                    d = o['obj']
                    if case.get('reload') == 'overwrite':
                        # storage history A: the durable file is overwritten in place (same length, every byte changed)
                        # after the load - an acquisition program re-using the file name, a sync tool; the sample loaded
                        # earlier holds the events recorded when it was loaded. (Kept apart from history B below, which
                        # needs the very same inode AND modification time for its second load.)
                        pth = dk.path('f.fcs')
                        orig = dk.files['f.fcs']
                        with open(pth, 'r+b') as fh:
                            fh.write((np.frombuffer(orig, dtype=np.uint8) ^ 0xFF).tobytes())
                        now = np.array(d.view(np.ndarray))
                        log.add('overwritten-in-place', arr_fp(now))
                        if not data_equal(now, T['data']):
                            out['violations'].append(violation(
                                'C01/values', 'overwrite-after-load/%s' % lc,
                                'the sample changed when its file was overwritten in place after loading'))
                        with open(pth, 'r+b') as fh:
                            fh.write(orig)
                        out['probes']['file_overwritten_in_place_after_load'] = 1
                    try:
                        if d.size:
                            d[...] = 0 if spec['datatype'] == 'I' else -1.0
                        d.text['$TOT'] = 'modified'
                        d.text['__verif__'] = 'x'
                        d.analysis['__verif__'] = 'x'
                    except Exception as e:
                        out['violations'].append(violation('C01/values', 'reload/modify-raises/' + type(e).__name__, str(e)[:200]))
                    for cls in (('FCSData', 'FCSFile') if case.get('reload') != 'overwrite' else ()):
                        o2 = ld.load('f.fcs', cls, rewrite=False)
                        out['evals'] += 1
                        log.add('reload', cls, o2['kind'], arr_fp(o2['data']) if o2['kind'] == 'ok' else None)
                        if o2['kind'] != 'ok' or not data_equal(o2['data'], T['data']) or o2['text'] != T['text'] \
                                or o2['analysis'] != T['analysis']:
                            out['violations'].append(violation(
                                'C01/values', 'reload/%s/%s' % (cls, lc),
                                'second load of the unchanged file after the first sample was modified in memory differs from the file'))
                    if case.get('reload') != 'overwrite':
                        out['probes']['reload_after_in_memory_modification'] = 1
                if fcs_ref.n_events(spec) >= 1:
                    rc = sorted({('full' if int(r) == 1 << w else 'pow2' if int(r) & (int(r) - 1) == 0 else 'odd')
                                 for r, w in zip(spec['ranges'], spec['widths'])})
                    out['sigs'].add('%s/%s/%s' % (lc, ''.join(s[0] for s in spec['order']), '+'.join(rc)))
                if spec['datatype'] == 'I' and len(set(spec['widths'])) > 1:
                    out['probes']['mixed_width_path'] = 1
                if not spec.get('header_data', True):
                    out['probes']['text_only_offsets'] = 1
                if fcs_ref.n_events(spec) == 0:
                    out['probes']['zero_events'] = 1
        finally:
            dk.teardown()
        out['digest'] = log.digest()
        out['summary'] = {'violations': len(out['violations'])}
        return out

    def shrink_candidates(self, case):
        spec = case['spec']
        if spec.get('bulk'):
            return
        for ev in list_reductions(spec['events'], 0):
            c = copy.deepcopy(case)
            c['spec']['events'] = ev
            yield c
        D = len(spec['widths'])
        if D > 1:
            for j in range(D):
                c = copy.deepcopy(case)
                s = c['spec']
                for k in ('widths', 'ranges', 'names'):
                    s[k] = s[k][:j] + s[k][j + 1:]
                s['events'] = [r[:j] + r[j + 1:] for r in s['events']]
                yield c
        for k, v in (('extra', []), ('stext', None), ('analysis', None), ('shuffle', None),
                     ('pads', []), ('end_plus_one', False), ('header_data', True),
                     ('text_data_zero', False), ('blank_analysis', False)):
            if spec.get(k) not in (v, None) or (k in spec and spec[k] != v and v is not None):
                c = copy.deepcopy(case)
                c['spec'][k] = v
                if k in ('stext', 'analysis'):
                    c['spec']['order'] = [s for s in c['spec']['order']
                                          if s != {'stext': 'STEXT', 'analysis': 'ANALYSIS'}[k]]
                yield c
        if spec['order'] != ['TEXT', 'DATA'] and set(spec['order']) == {'TEXT', 'DATA'}:
            c = copy.deepcopy(case)
            c['spec']['order'] = ['TEXT', 'DATA']
            yield c


# ===========================================================================
# C16
# ===========================================================================

class C16Machine(Machine):
    prop = 'C16'
    level = 'fault_enumeration'
    rule = ('each run generates one small FCS file (C01 layout space incl. TEXT / supplemental TEXT / ANALYSIS '
            'last in file) and loads it after faults: crash-during-copy at EVERY byte offset 0..len (exhaustive '
            'per file), and single-field inconsistencies of $TOT, $PAR, $PnB, HEADER and TEXT offsets set to '
            'smaller / larger / +1 / -1 values, alone or composed with a second field fault or a truncation; '
            'distinct = distinct (layout class, fault kind, segment or field hit, outcome class) tuples over '
            'files with >= 1 event')
    real_components = ['FlowCal.io.FCSFile / FCSData (real)', 'open/seek/read/np.memmap on tmpfs (real, recorded)']
    stubbed_components = ['the interrupted copy / inconsistent exporter: simulated disk (sim/disk.py) and '
                          'reference writer with field overrides']
    not_modelled = ['garbage or zero-filled blocks of correct length (undetectable without checksums)',
                    'short reads from raw streams', 'EIO/EINTR during read']
    assumptions = ['Ref (models/fcs_ref.ref_load) implements the documented format rules incl. the one-past-end '
                   'DATA convention; an outcome equal to Ref(bytes present) is accepted only when Ref finds the '
                   'bytes self-consistent']

    def plan(self, tier):
        if tier == 'quick':
            return {'runs': 6000, 'budget_s': 100, 'batch': 20}
        return {'runs': 250000, 'budget_s': 1500, 'batch': 40}

    def generate(self, rng, tier, index):
        if rng.chance(0.004):
            # a LARGE file interrupted inside or right after DATA (a handful of crash points, not all of them)
            spec = fcsgen.gen_spec(rng, small=True, n_params=2, keywords=False)
            fcsgen.make_bulk(rng, spec)
            spec['pads'] = []
            spec['end_plus_one'] = False
            b, info = fcs_ref.build(spec)
            a, e = info['seg']['DATA']
            cuts = sorted({a + 1, a + 4097, (a + e) // 2, e - 7, e, e + 1, len(b) - 1, len(b)} |
                          {rng.randint(a, e) for _ in range(3)})
            return {'spec': spec, 'fields': [], 'cuts': [c for c in cuts if 0 <= c <= len(b)], 'chunks': [1 << 20]}
        spec = fcsgen.gen_spec(rng, small=True)
        b, info = fcs_ref.build(spec)
        arm = rng.wchoice([('truncate_all', 42), ('field', 28), ('field+truncate', 12), ('field+field', 10),
                           ('field+field+truncate', 8)])
        case = {'spec': spec, 'fields': [], 'cuts': None}
        if arm == 'truncate_all':
            case['cuts'] = 'all'
        else:
            nf = 2 if arm.startswith('field+field') else 1
            fs = []
            for _ in range(nf):
                fs.append(fcsgen.gen_field_fault(rng, spec, info))
            if nf == 2 and fs[0]['field'] == fs[1]['field']:
                fs = fs[:1]
            case['fields'] = fs
            if arm.endswith('truncate'):
                b2, info2 = fcs_ref.build(fcsgen.apply_field_faults(spec, fs))
                n = rng.randint(1, 12)
                case['cuts'] = sorted({rng.randint(0, len(b2)) for _ in range(n)})
        case['chunks'] = [rng.choice([1, 7, 64, 512, 4096]) for _ in range(3)]
        return case

    def summarise(self, case):
        c = copy.deepcopy(case)
        ev = c['spec']['events']
        c['spec']['events'] = ev[:2] + (['... %d rows' % len(ev)] if len(ev) > 2 else [])
        return c

    def execute(self, case):
        log = OpLog()
        spec0 = case['spec']
        out = {'violations': [], 'sigs': set(), 'faults': {}, 'probes': {}, 'evals': 0}
        faults = out['faults']
        probes = out['probes']

        def bump(d, k, n=1):
            d[k] = d.get(k, 0) + n

        spec = fcsgen.apply_field_faults(spec0, case['fields']) if case['fields'] else spec0
        b0, info0 = fcs_ref.build(spec0)
        b, info = fcs_ref.build(spec)
        # "the intact file": events of the un-faulted file, keywords as actually written
        G = {'data': info0['truth']['data'], 'text': info['truth']['text'],
             'analysis': info['truth']['analysis']}
        lc = layout_class(spec0)
        nontrivial = fcs_ref.n_events(spec0) >= 1
        if spec0.get('bulk'):
            bump(probes, 'large_file_runs')
        dk = simdisk.SimDisk('c16')
        try:
            ld = Loader(dk)
            # baseline: the un-faulted file must load as ground truth, otherwise nothing below means anything
            dk.write('intact.fcs', b0)
            o = ld.load('intact.fcs')
            out['evals'] += 1
            log.add('intact', o['kind'], o.get('exc'))
            if not (o['kind'] == 'ok' and data_equal(o['data'], info0['truth']['data'])
                    and o['text'] == info0['truth']['text'] and analysis_ok(o, info0['truth']['analysis'])):
                out['violations'].append(violation(
                    'C16/intact-not-G', 'intact/' + lc,
                    'un-faulted file does not load as its ground truth (%s %s)' % (o['kind'], o.get('exc'))))
                out['digest'] = log.digest()
                return out
            cuts = case['cuts']
            if cuts == 'all':
                cut_list = list(range(0, len(b) + 1))
            elif cuts is None:
                cut_list = [None]
            else:
                cut_list = list(cuts)
            fdesc = '+'.join('%s:%s' % (fcsgen.field_class(f['field']), f['dir']) for f in case['fields'])
            for c in cut_list:
                kept = dk.copy_with_crash(b, 'x.fcs', case.get('chunks') or [4096], c)
                present = dk.files['x.fcs']
                if c is None or c >= len(b):
                    hit, is_last = ('none', False)
                else:
                    hit, is_last = fcsgen.segment_at(info, c)
                    bump(faults, 'crash_during_copy')
                    if c == 0:
                        bump(faults, 'empty_file')
                for f in case['fields']:
                    bump(faults, 'field:%s:%s' % (fcsgen.field_class(f['field']), f['dir']))
                cls = 'FCSFile' if (c is None or c % 5) else 'FCSData'
                mode = None
                if c is not None and not spec0.get('bulk'):
                    # a share of the boots goes through a stream without file descriptor, or meets a failing mmap()
                    mode = {3: 'bytesio', 11: 'mmap_enodev'}.get(c % 13)
                o = ld.load('x.fcs', cls, fileobj=('bytesio' if mode == 'bytesio' else False),
                            mmap_fail=(mode == 'mmap_enodev'))
                if mode:
                    bump(faults, mode)
                out['evals'] += 1
                kind = ('field' if case['fields'] else '') + ('+' if case['fields'] and c is not None else '') + \
                    ('truncate' if c is not None else '')
                site = '%s/%s%s%s' % (kind, fdesc, ('@' if fdesc and c is not None else ''),
                                      ('' if c is None else hit + ('-last' if is_last else '')))
                if o['kind'] == 'exc':
                    oc = 'raise:' + o['exc']
                    if o['leaked']:
                        bump(probes, 'fd_left_open_after_failed_load')
                else:
                    dG = data_equal(o['data'], G['data'])
                    tG = o['text'] == G['text']
                    aG = analysis_ok(o, G['analysis'])
                    if dG and tG and aG:
                        oc = 'intact'
                        if o['analysis'] != G['analysis']:
                            bump(probes, 'analysis_dropped_with_warning')
                    else:
                        # (c) as-declared: accepted only if the reference loader finds the bytes consistent
                        try:
                            r = fcs_ref.ref_load(present)
                            same = data_equal(o['data'], r['data']) and o['text'] == r['text'] and (
                                r['analysis_dc'] or o['analysis'] == r['analysis'] or analysis_ok(o, r['analysis']))
                            if same:
                                oc = 'as-declared'
                                bump(probes, 'ref_as_declared_accepted')
                            else:
                                oc = 'OTHER'
                                why = 'differs from intact file and from the reference reading of the bytes present'
                        except fcs_ref.RefDontCare as e:
                            oc = 'dontcare'
                            bump(probes, 'ref_dontcare')
                        except fcs_ref.RefReject as e:
                            oc = 'OTHER'
                            why = 'bytes present are inconsistent (%s) but a load succeeded' % e
                        if oc == 'OTHER':
                            clause = 'C16/other-data' if not dG else ('C16/other-text' if not tG else 'C16/other-analysis')
                            det = '%s; cut=%s of %d, fields=%s; got shape %s, %d keywords (intact: shape %s, %d keywords)' % (
                                why, c, len(b), case['fields'], np.asarray(o['data']).shape, len(o['text']),
                                G['data'].shape, len(G['text']))
                            out['violations'].append(violation(clause, site, det))
                log.add('load', c, cls, oc, arr_fp(o['data']) if o['kind'] == 'ok' else None, len(o['io']))
                if nontrivial:
                    out['sigs'].add('%s|%s|%s' % (lc, site, oc.split(':')[0]))
                if c is not None and hit == 'TEXT':
                    bump(probes, 'cut_inside_TEXT')
                if c is not None and is_last and hit in ('TEXT', 'STEXT', 'ANALYSIS'):
                    bump(probes, 'cut_inside_text_like_segment_that_is_last_in_file')
        finally:
            dk.teardown()
        out['digest'] = log.digest()
        out['summary'] = {'loads': out['evals'], 'violations': len(out['violations'])}
        return out

    def shrink_candidates(self, case):
        if case['spec'].get('bulk'):
            if isinstance(case['cuts'], list) and len(case['cuts']) > 1:
                for cl in list_reductions(case['cuts'], 1):
                    c = copy.deepcopy(case)
                    c['cuts'] = cl
                    yield c
            return
        # 1. a single cut
        if case['cuts'] == 'all':
            b, _ = fcs_ref.build(fcsgen.apply_field_faults(case['spec'], case['fields']))
            n = len(b)
            # bisect-friendly: try halves of the cut range first
            for lo, hi in ((0, n // 2), (n // 2, n + 1)):
                c = copy.deepcopy(case)
                c['cuts'] = list(range(lo, hi))
                yield c
        elif isinstance(case['cuts'], list) and len(case['cuts']) > 1:
            for cl in list_reductions(case['cuts'], 1):
                c = copy.deepcopy(case)
                c['cuts'] = cl
                yield c
        # 2. fewer field faults
        if len(case['fields']) > 1 or (case['fields'] and case['cuts'] is not None):
            for fl in list_reductions(case['fields'], 0):
                c = copy.deepcopy(case)
                c['fields'] = fl
                yield c
        if case['fields'] and case['cuts'] is not None:
            c = copy.deepcopy(case)
            c['cuts'] = None
            yield c
        # 3. simpler file (cuts re-expanded to 'all' because offsets move)
        base = copy.deepcopy(case)
        single_cut = isinstance(case['cuts'], list)
        for cand in C01Machine().shrink_candidates({'arm': 'intact', 'spec': case['spec']}):
            c = copy.deepcopy(base)
            c['spec'] = cand['spec']
            if single_cut:
                c['cuts'] = 'all'
            if case['fields']:
                # field values are absolute: only keep candidates that leave the layout alone
                continue
            yield c
