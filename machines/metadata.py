"""C17: acquisition metadata reflects the file's keywords and never blocks loading.

Stored-field faults: every optional keyword is absent, well-formed (in every accepted
format) or ill-formed (non-numeric, wrong field count, out-of-range, empty); the file is
written to the simulated disk and loaded through FCSData; every derived attribute is
compared with models/meta_ref.expected."""
import copy
import datetime
import math

import numpy as np

from machines import Machine, violation, fcsgen, fcsload
from models import fcs_ref, meta_ref
from sim import disk as simdisk
from sim.oplog import OpLog
from sim.shrink import list_reductions

ILL_NUM = [('nonnumeric', 'abc'), ('empty', ' '), ('comma', '0,1'), ('unit', '500V'), ('nonnumeric', 'N/A')]
TIME_NAMES = ['Time', 'TIME', 'time', 'TiMe']


def gen_time(rng, version_hint=None):
    h, m, s = rng.randint(0, 23), rng.randint(0, 59), rng.randint(0, 59)
    base = '%02d:%02d:%02d' % (h, m, s)
    fmt = rng.choice(['hms', 'tt', 'cc'])
    if fmt == 'tt':
        return base + ':%02d' % rng.randint(0, 59), 'wf:hh:mm:ss:tt'
    if fmt == 'cc':
        return base + rng.choice(['.%02d' % rng.randint(0, 99), '.%d' % rng.randint(0, 9), '.%03d' % rng.randint(0, 999)]), \
            'wf:hh:mm:ss.cc'
    return base, 'wf:hh:mm:ss'


def gen_ill_time(rng):
    return rng.choice([
        ('aa:bb:cc', 'ill:nonnumeric'), ('10:00:00:xx', 'ill:nonnumeric-tt'), ('10:00:00:', 'ill:empty-tt'),
        ('10:00', 'ill:fieldcount'), ('10:00:00:00:00', 'ill:fieldcount'), ('25:00:00', 'ill:range'),
        ('10:61:00', 'ill:range'), ('10:00:00:75', 'ill:range-tt'), (' ', 'ill:empty'),
        ('10:00:00.xy', 'ill:nonnumeric-cc'), ('noon', 'ill:nonnumeric'),
        ('10:20:30:inf', 'ill:nonfinite-tt'), ('10:20:30:1e999', 'ill:nonfinite-tt'), ('10:20:30:nan', 'ill:nonfinite-tt'),
        ('10:20:30:-inf', 'ill:nonfinite-tt'), ('10:20:30:-5', 'ill:range-tt'), ('10:20:30:1e3', 'ill:range-tt')])


def gen_date(rng):
    d, y = rng.randint(1, 28), rng.randint(1970, 2040)
    mon = rng.choice(['JAN', 'Feb', 'mar', 'APR', 'May', 'jun', 'JUL', 'Aug', 'sep', 'OCT', 'Nov', 'dec'])
    fmt = rng.choice(['dd-mmm-yy', 'dd-mmm-yyyy', 'yy-mmm-dd', 'yyyy-mmm-dd'])
    if fmt == 'dd-mmm-yy':
        return '%02d-%s-%02d' % (d, mon, y % 100), 'wf:' + fmt
    if fmt == 'dd-mmm-yyyy':
        return ('%02d-%s-%04d' if rng.chance(0.8) else '%d-%s-%04d') % (d, mon, y), 'wf:' + fmt
    if fmt == 'yy-mmm-dd':
        yy = rng.randint(32, 99)             # <= 31 would also read as dd-mmm-yy
        return '%02d-%s-%02d' % (yy, mon, d), 'wf:' + fmt
    return '%04d-%s-%02d' % (y, mon, d), 'wf:' + fmt


def gen_ill_date(rng):
    return rng.choice([('2020/01/05', 'ill:format'), ('garbage', 'ill:nonnumeric'), (' ', 'ill:empty'),
                       ('32-JAN-2020', 'ill:range'), ('05-FOO-2020', 'ill:month'), ('2020-01-05', 'ill:format'),
                       ('05-JAN', 'ill:fieldcount')])


def opt_num(rng, p_abs, p_ill, wf_pool):
    r = rng.rand()
    if r < p_abs:
        return None, 'absent'
    if r < p_abs + p_ill:
        k, v = rng.choice(ILL_NUM)
        return v, 'ill:' + k
    return rng.choice(wf_pool), 'wf'


def derive_state(text, names):
    st = {}
    for k in ('$TIMESTEP', 'TIMETICKS'):
        v = text.get(k)
        st[k] = 'absent' if v is None else ('wf' if meta_ref.parse_float(v) is not None else 'ill')
    for k in ('$BTIM', '$ETIM'):
        v = text.get(k)
        if v is None:
            st[k] = 'absent'
        elif meta_ref.parse_time(v) is None:
            st[k] = 'ill'
        else:
            st[k] = 'wf:' + ('tt' if v.count(':') == 3 else ('cc' if '.' in v else 'hms'))
    v = text.get('$DATE')
    if v is None:
        st['$DATE'] = 'absent'
    elif not meta_ref.parse_date(v):
        st['$DATE'] = 'ill'
    else:
        a, _, c = v.split('-')
        st['$DATE'] = 'wf:%d-mmm-%d' % (len(a), len(c))
    cr = text.get('CREATOR')
    st['CREATOR'] = 'absent' if cr is None else cr.split()[0]
    for fam, fmt in (('$PnV', '$P%dV'), ('$PnG', '$P%dG'), ('$PnS', '$P%dS'), ('BD$WORD', 'BD$WORD%d'),
                     ('CytekG', 'CytekP%02dG')):
        code = ''
        for i in range(1, len(names) + 1):
            v = text.get(fmt % ((12 + i) if fam == 'BD$WORD' else i))
            code += 'a' if v is None else ('w' if (fam == '$PnS' or meta_ref.parse_float(v) is not None) else 'i')
        st[fam] = code
    nt = sum(1 for n in names if n.lower() == 'time')
    st['tch'] = 'none' if nt == 0 else ('one' if nt == 1 else 'two')
    return st


class C17Machine(Machine):
    prop = 'C17'
    level = 'fault_enumeration'
    rule = ('each run writes one generated FCS file whose optional keywords ($TIMESTEP, TIMETICKS, $BTIM, $ETIM, $DATE, '
            '$PnV, $PnG, $PnS, CREATOR, BD$WORDn, CytekPnnG) are each absent, well-formed in one of the accepted formats, '
            'or ill-formed (non-numeric, wrong field count, out-of-range field, empty), with a time channel absent / '
            'present in any letter case / duplicated, in any FCS version, and loads it through FCSData; distinct = '
            'distinct (keyword state vector, time-channel state, version) tuples')
    real_components = ['FlowCal.io.FCSData attribute derivation and accessors (real)', 'file I/O on tmpfs (real)']
    stubbed_components = ['acquisition software: keywords come from the generator']
    not_modelled = ['$PnE / $PnR / $PnN garbling (required keywords, not in the property\'s list)',
                    'zero-event files for acquisition_time']
    assumptions = ['fractions of a second compared to +-1 us (1/60 s is not exactly representable)',
                   'where the property text allows two readings (garbled standard keyword with a vendor fallback present; '
                   'garbled $TIMESTEP with a valid TIMETICKS; end before start without a date) both are accepted']

    def plan(self, tier):
        if tier == 'quick':
            return {'runs': 12000, 'budget_s': 100, 'batch': 100}
        return {'runs': 4000000, 'budget_s': 1500, 'batch': 300}

    def generate(self, rng, tier, index):
        # mostly few channels; sometimes two-digit parameter numbers ($P10V, BD$WORD22, CytekP11G)
        D = rng.randint(1, 5) if rng.chance(0.88) else rng.randint(10, 13)
        tstate = rng.wchoice([('none', 4), ('one', 5), ('two', 1)])
        names = (['FSC-H', 'SSC-H', 'FL1-H', 'FL2-H', 'FL3-H'] + ['FL%d-A' % j for j in range(4, 13)])[:D]
        if tstate == 'one':
            names[rng.randint(0, D - 1)] = rng.choice(TIME_NAMES)
        elif tstate == 'two':
            if D < 2:
                D = 2
                names = ['FSC-H', 'SSC-H']
            a, b = rng.sample(range(D), 2)
            n1, n2 = rng.sample(TIME_NAMES, 2)
            names[a], names[b] = n1, n2
        spec = fcsgen.gen_spec(rng, small=True, names=names, n_params=D,
                               n_events=rng.choice([1, 2, 3, 5, 9]), keywords=False,
                               datatype=rng.wchoice([('I', 7), ('F', 2), ('D', 1)]))
        spec['delim'] = rng.choice(['/', '|', '\x0c', '!'])
        spec['pads'] = []
        # time column non-decreasing so that last-first is well defined for unsigned data
        for j, nm in enumerate(names):
            if nm.lower() == 'time':
                col = sorted(abs(r[j]) % max(1, min(int(spec['ranges'][j]), 1 << 40)) if spec['datatype'] == 'I'
                             else float(abs(r[j]) if math.isfinite(r[j]) else 1.0) for r in spec['events'])
                for r, v in zip(spec['events'], col):
                    r[j] = v
        kw = []
        state = {}
        v, st = opt_num(rng, 0.35, 0.2, ['0.1', '1e-3', '0.01', '1', '0.25', '2.5E-2', '0', '0.0'])
        state['$TIMESTEP'] = st
        if v is not None:
            kw.append(['$TIMESTEP', v])
        v, st = opt_num(rng, 0.6, 0.15, ['100', '200', '1000', '50.5', '0'])
        state['TIMETICKS'] = st
        if v is not None:
            kw.append(['TIMETICKS', v])
        for k in ('$BTIM', '$ETIM'):
            r = rng.rand()
            if r < 0.3:
                state[k] = 'absent'
            elif r < 0.75:
                v, st = gen_time(rng)
                state[k] = st
                kw.append([k, v])
            else:
                v, st = gen_ill_time(rng)
                state[k] = st
                kw.append([k, v])
        r = rng.rand()
        if r < 0.35:
            state['$DATE'] = 'absent'
        elif r < 0.8:
            v, st = gen_date(rng)
            state['$DATE'] = st
            kw.append(['$DATE', v])
        else:
            v, st = gen_ill_date(rng)
            state['$DATE'] = st
            kw.append(['$DATE', v])
        creator = rng.wchoice([(None, 5), ('CellQuest Pro 5.2.1', 2), ('FlowJoCollectorsEdition 7.5.110.7', 2),
                               ('Other Soft 1.0', 1)])
        state['CREATOR'] = 'absent' if creator is None else creator.split()[0]
        if creator:
            kw.append(['CREATOR', creator])
        pne = []
        for i in range(1, D + 1):
            for key, pool in (('$P%dV' % i, ['500', '450.5', '1e2', '0', '999.99']),
                              ('$P%dG' % i, ['1', '2.5', '8', '1.0', '0.5'])):
                v, st = opt_num(rng, 0.4, 0.2, pool)
                state[fcsgen.field_class(key)] = state.get(fcsgen.field_class(key), '') + st[0]
                if v is not None:
                    kw.append([key, v])
            if rng.chance(0.5):
                kw.append(['$P%dS' % i, rng.choice(['GFP', 'mCherry', 'FITC-A', 'label %d' % i])])
            if creator and 'CellQuest' in creator:
                v, st = opt_num(rng, 0.3, 0.2, ['400', '650', '700.5'])
                state['BD$WORD'] = state.get('BD$WORD', '') + st[0]
                if v is not None:
                    kw.append(['BD$WORD%d' % (12 + i), v])
            if creator and 'FlowJo' in creator:
                v, st = opt_num(rng, 0.3, 0.2, ['1', '4', '16.5'])
                state['CytekG'] = state.get('CytekG', '') + st[0]
                if v is not None:
                    kw.append(['CytekP%02dG' % i, v])
            pne.append(rng.choice(['0,0', '4,1', '4,0', '4.5,0.1', '3.0,0', '0,1', '5,0.01']))
        spec['pne'] = pne
        spec['extra'] = kw
        if rng.chance(0.5):
            spec['shuffle'] = rng.randint(0, 10 ** 6)
        return {'spec': spec}

    def summarise(self, case):
        c = copy.deepcopy(case)
        ev = c['spec']['events']
        c['spec']['events'] = ev[:2] + (['... %d rows' % len(ev)] if len(ev) > 2 else [])
        return c

    # ------------------------------------------------------------------
    def execute(self, case):
        log = OpLog()
        spec = case['spec']
        out = {'violations': [], 'sigs': set(), 'faults': {}, 'probes': {}, 'evals': 1}

        def bump(d, k, n=1):
            d[k] = d.get(k, 0) + n

        b, info = fcs_ref.build(spec)
        text = info['truth']['text']
        D = len(spec['widths'])
        E = meta_ref.expected(text, D)
        kwstate = {}
        for k, v in spec.get('extra') or []:
            kc = fcsgen.field_class(k)
            kc = 'BD$WORD' if kc.startswith('BD$WORD') else ('CytekG' if kc.startswith('CytekP') else kc)
            kwstate[k] = kc
        # which optional keywords are ill-formed in this file (fault accounting)
        ill = []
        for k, v in spec.get('extra') or []:
            kc = kwstate[k]
            bad = False
            if kc in ('$TIMESTEP', 'TIMETICKS', '$PnV', '$PnG', 'BD$WORD', 'CytekG'):
                bad = meta_ref.parse_float(v) is None
            elif kc in ('$BTIM', '$ETIM'):
                bad = meta_ref.parse_time(v) is None
            elif kc == '$DATE':
                bad = not meta_ref.parse_date(v)
            if bad:
                ill.append(kc)
                bump(out['faults'], 'illformed:' + kc)
        for kc in ('$TIMESTEP', 'TIMETICKS', '$BTIM', '$ETIM', '$DATE'):
            if kc not in text:
                bump(out['faults'], 'absent:' + kc)
        illsite = '+'.join(sorted(set(ill))) or 'none'

        dk = simdisk.SimDisk('c17')
        try:
            dk.write('f.fcs', b)
            o = fcsload.Loader(dk).load('f.fcs', 'FCSData')
            log.add('load', o['kind'], o.get('exc'))
            if o['kind'] == 'exc':
                # which single optional keyword is responsible? (stable site under minimisation)
                culprit = 'multi'
                for k, v in spec.get('extra') or []:
                    s2 = copy.deepcopy(spec)
                    s2['extra'] = [p for p in s2['extra'] if p[0] != k]
                    b2, _ = fcs_ref.build(s2)
                    dk.write('g.fcs', b2)
                    o2 = fcsload.Loader(dk).load('g.fcs', 'FCSData')
                    out['evals'] += 1
                    if o2['kind'] == 'ok':
                        culprit = kwstate[k]
                        break
                if not (spec.get('extra') or []):
                    culprit = 'no-optional-keyword'
                out['violations'].append(violation(
                    'C17/load-blocked', 'load/%s/%s' % (o['exc'], culprit),
                    'loading raised %s: %s (ill-formed optional keywords present: %s)' % (o['exc'], o['msg'], illsite)))
            else:
                d = o['obj']
                V = out['violations']

                def acc(name, fn):
                    try:
                        return ('ok', fn())
                    except Exception as e:
                        return ('exc', type(e).__name__ + ': ' + str(e)[:120])

                def check(name, got, ok, site, exp):
                    log.add('attr', name, got[0], repr(got[1])[:200])
                    if got[0] == 'exc':
                        V.append(violation('C17/accessor-raises', '%s/%s' % (name, site), got[1]))
                    elif not ok(got[1]):
                        V.append(violation('C17/attr-wrong', '%s/%s' % (name, site),
                                           'got %r, expected %r' % (got[1], exp)))

                st = derive_state(text, spec['names'])
                check('channels', acc('channels', lambda: d.channels), lambda g: tuple(g) == E['channels'], 'any', E['channels'])
                check('data_type', acc('data_type', lambda: d.data_type), lambda g: g == E['data_type'], 'any', E['data_type'])
                check('range', acc('range', lambda: d.range()),
                      lambda g: [list(map(float, x)) for x in g] == E['range'], 'any', E['range'])
                check('resolution', acc('resolution', lambda: d.resolution()),
                      lambda g: list(g) == E['resolution'], 'any', E['resolution'])
                check('amplification_type', acc('amplification_type', lambda: d.amplification_type()),
                      lambda g: [None if x is None else tuple(x) for x in g] == E['amplification_type'],
                      'pne=' + '|'.join(sorted(set(spec['pne']))), E['amplification_type'])
                check('channel_labels', acc('channel_labels', lambda: d.channel_labels()),
                      lambda g: list(g) == E['channel_labels'], 'any', E['channel_labels'])

                def num_ok(g, accl):
                    return any((g is None and a is None) or
                               (g is not None and a is not None and float(g) == a) for a in accl)
                for i in range(D):
                    nm = spec['names'][i]
                    for attr, exp, key in (('detector_voltage', E['detector_voltage'][i], '$P%dV' % (i + 1)),
                                           ('amplifier_gain', E['amplifier_gain'][i], '$P%dG' % (i + 1))):
                        raw = text.get(key)
                        site = ('absent' if raw is None else ('wf' if meta_ref.parse_float(raw) is not None else 'ill')) + \
                            '/creator=' + str(st.get('CREATOR', 'absent'))
                        if st['tch'] == 'two' and nm.lower() == 'time':
                            got = acc(attr, lambda: getattr(d, attr)(i))
                        else:
                            got = acc(attr, lambda: getattr(d, attr)(nm if i % 2 else i))
                        check(attr, got, lambda g, exp=exp: num_ok(g, exp), site, exp)
                ts_site = '%s/ticks=%s' % (st.get('$TIMESTEP', '?'), st.get('TIMETICKS', '?'))
                got_ts = acc('time_step', lambda: d.time_step)
                check('time_step', got_ts, lambda g: num_ok(g, E['time_step']), ts_site, E['time_step'])
                dsite = 'date=%s' % st.get('$DATE', '?')
                check('acquisition_start_time', acc('st', lambda: d.acquisition_start_time),
                      lambda g: meta_ref.time_matches(g, E['btim'], E['date']),
                      '%s/%s' % (st.get('$BTIM', '?'), dsite), (E['btim'], E['date']))
                check('acquisition_end_time', acc('et', lambda: d.acquisition_end_time),
                      lambda g: meta_ref.time_matches(g, E['etim'], E['date']),
                      '%s/%s' % (st.get('$ETIM', '?'), dsite), (E['etim'], E['date']))
                # duration precedence: time channel + time step, else start/end, else absent
                tidx = [j for j, nm in enumerate(spec['names']) if nm.lower() == 'time']
                got = acc('acquisition_time', lambda: d.acquisition_time)
                if len(tidx) >= 2:
                    bump(out['probes'], 'two_time_channels_excepted')
                    log.add('attr', 'acquisition_time', got[0])
                else:
                    accl = []
                    arr = np.asarray(d.view(np.ndarray))
                    have_be = E['btim'] is not None and E['etim'] is not None
                    be = None
                    if have_be:
                        be = meta_ref.seconds_of(E['etim']) - meta_ref.seconds_of(E['btim'])
                    fallback = [be] if have_be else [None]
                    if have_be and be < 0 and not E['date']:
                        fallback.append(be + 86400.)
                    if len(tidx) == 1:
                        span = float(arr[-1, tidx[0]]) - float(arr[0, tidx[0]])
                        for t in E['time_step']:
                            if t is None:
                                accl += fallback
                            else:
                                accl.append(span * t)
                    else:
                        accl = fallback

                    # the product is formed in the data's own precision (float32 files: 2^-23 relative)
                    rel = 1e-6 if arr.dtype.itemsize <= 4 and arr.dtype.kind == 'f' else 1e-9

                    def at_ok(g):
                        for a in accl:
                            if a is None and g is None:
                                return True
                            if a is not None and g is not None and \
                                    abs(float(g) - a) <= 2e-6 + rel * abs(a):
                                return True
                        return False
                    site = 'tch=%d/ts=%s/b=%s/e=%s/%s' % (
                        len(tidx), 'none' if all(t is None for t in E['time_step']) else 'some',
                        'y' if E['btim'] else 'n', 'y' if E['etim'] else 'n', 'date' if E['date'] else 'nodate')
                    check('acquisition_time', got, at_ok, site, accl)
                    # history: every attribute read again after the duration was computed, on the same object and on
                    # views / copies made afterwards, must still say what the keywords say
                    later = [('reread', d)]
                    for vn, mk in (('view-after', lambda: d.view()), ('slice-after', lambda: d[:]),
                                   ('copy-after', lambda: d.copy())):
                        try:
                            later.append((vn, mk()))
                        except Exception as e:
                            V.append(violation('C17/accessor-raises', '%s/making' % vn, '%s: %s' % (type(e).__name__, e)))
                    for tag, ob in later:
                        check('time_step', acc('time_step', lambda: ob.time_step), lambda g: num_ok(g, E['time_step']),
                              tag + '/' + ts_site, E['time_step'])
                        check('acquisition_start_time', acc('st', lambda: ob.acquisition_start_time),
                              lambda g: meta_ref.time_matches(g, E['btim'], E['date']),
                              '%s/%s/%s' % (tag, st.get('$BTIM', '?'), dsite), (E['btim'], E['date']))
                        check('acquisition_end_time', acc('et', lambda: ob.acquisition_end_time),
                              lambda g: meta_ref.time_matches(g, E['etim'], E['date']),
                              '%s/%s/%s' % (tag, st.get('$ETIM', '?'), dsite), (E['etim'], E['date']))
                        check('acquisition_time', acc('acquisition_time', lambda: ob.acquisition_time), at_ok,
                              tag + '/' + site, accl)
                    bump(out['probes'], 'attributes_reread_after_duration')
                    if len(tidx) == 1 and any(t == 0.0 for t in E['time_step'] if t is not None):
                        bump(out['probes'], 'zero_time_step_with_time_channel')
                    # the same rule on channel-sliced views: the view has its own channel list, so the time channel
                    # may have moved or be gone (then start/end apply)
                    D_ = len(spec['names'])
                    for vname, key in (('tail', slice(1, None)), ('rev', slice(None, None, -1)), ('head', slice(0, max(1, D_ - 1))),
                                       ('list', list(range(D_ - 1, -1, -1))[:max(1, D_ - 1)])):
                        if D_ < 2:
                            break
                        try:
                            v = d[:, key]
                        except Exception as e:
                            V.append(violation('C17/accessor-raises', 'view-%s/slicing' % vname, '%s: %s' % (type(e).__name__, e)))
                            continue
                        vnames = list(np.array(spec['names'], dtype=object)[key]) if not isinstance(key, list) else \
                            [spec['names'][k] for k in key]
                        vt = [j for j, nm in enumerate(vnames) if nm.lower() == 'time']
                        if len(vt) >= 2:
                            continue
                        vacc = []
                        if len(vt) == 1:
                            col = np.asarray(v.view(np.ndarray))[:, vt[0]]
                            span_v = float(col[-1]) - float(col[0])
                            for t in E['time_step']:
                                if t is None:
                                    vacc += fallback
                                else:
                                    vacc.append(span_v * t)
                        else:
                            vacc = fallback
                        gv = acc('acquisition_time', lambda: v.acquisition_time)

                        def at_ok_v(g, vacc=vacc):
                            for a in vacc:
                                if a is None and g is None:
                                    return True
                                if a is not None and g is not None and abs(float(g) - a) <= 2e-6 + rel * abs(a):
                                    return True
                            return False
                        check('acquisition_time', gv, at_ok_v, 'view-%s/tch=%d' % (vname, len(vt)), vacc)
                        bump(out['probes'], 'duration_checked_on_channel_sliced_view')
                    if len(tidx) == 1 and all(t is None for t in E['time_step']):
                        bump(out['probes'], 'time_channel_without_time_step')
                    if have_be and not E['date'] and len(tidx) == 0:
                        bump(out['probes'], 'duration_from_times_without_date')
        finally:
            dk.teardown()
        sv = '|'.join('%s=%s' % (k, v) for k, v in sorted(derive_state(text, spec['names']).items()))
        out['sigs'].add('%s|%s' % (spec['version'], sv))
        out['digest'] = log.digest()
        out['summary'] = {'violations': len(out['violations'])}
        return out

    def shrink_candidates(self, case):
        ex = case['spec'].get('extra') or []
        for red in list_reductions(ex, 0):
            c = copy.deepcopy(case)
            c['spec']['extra'] = red
            yield c
        for ev in list_reductions(case['spec']['events'], 1):
            c = copy.deepcopy(case)
            c['spec']['events'] = ev
            yield c
        if case['spec'].get('shuffle') is not None:
            c = copy.deepcopy(case)
            c['spec']['shuffle'] = None
            yield c
