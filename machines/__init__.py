"""Machines: one workload + oracle per claimed property."""
import importlib

_REG = {
    'C01': ('machines.fcsload', 'C01Machine'),
    'C16': ('machines.fcsload', 'C16Machine'),
    'C14': ('machines.textseg', 'C14Machine'),
    'C17': ('machines.metadata', 'C17Machine'),
    'C20': ('machines.restart', 'C20Machine'),
    'C04': ('machines.indexing', 'C04Machine'),
    'C13': ('machines.history', 'C13Machine'),
    'C11': ('machines.batch', 'C11Machine'),
    'C10': ('machines.batch', 'C10Machine'),
    'C15': ('machines.workbook', 'C15Machine'),
}
_CACHE = {}


def get(prop):
    if prop not in _CACHE:
        mod, cls = _REG[prop]
        _CACHE[prop] = getattr(importlib.import_module(mod), cls)()
    return _CACHE[prop]


def claimed():
    return sorted(_REG)


class Machine(object):
    prop = None
    level = 'exploration'
    rule = ''
    per_run_timeout = 300
    real_components = []
    stubbed_components = []
    not_modelled = []
    assumptions = []

    def plan(self, tier):
        raise NotImplementedError

    def generate(self, rng, tier, index):
        raise NotImplementedError

    def execute(self, case):
        raise NotImplementedError

    def shrink_candidates(self, case):
        return iter(())

    def summarise(self, case):
        return case


def violation(clause, site, detail=''):
    return {'clause': clause, 'site': site, 'detail': detail}
