"""C14: TEXT / supplemental TEXT / ANALYSIS keywords are returned as written, or rejected.

Workloads: (walk) every string over {delimiter, a, b} up to a bounded length, for primary
and supplemental segments; (direct) generated dictionaries encoded by the FCS escaping rule,
with and without stored-byte faults, read through read_fcs_text_segment from a buffer with
junk around the segment; (file) the same dictionaries inside generated FCS files on the
simulated disk read through FCSFile (merge of supplemental TEXT, ANALYSIS with the primary
delimiter). Oracle: the left-to-right reference tokenizer (three-valued)."""
import copy
import io
import itertools
import warnings

from machines import Machine, violation, fcsgen
from machines import fcsload
from models import fcs_ref
from sim import disk as simdisk
from sim.oplog import OpLog
from sim.shrink import list_reductions

PRINTABLE = [chr(c) for c in range(0x21, 0x7f)]
RICH = list('abcXYZ0189 $_-.,:;/|\\#') + ['\xe9', '\xff', '\x01', '\t', '\x00', '\x00']


def rich_word(rng, delim, lo=1, hi=10):
    n = rng.randint(lo, hi)
    s = ''
    for i in range(n):
        r = rng.rand()
        if i > 0 and r < 0.3:
            s += delim * rng.wchoice([(1, 6), (2, 3), (3, 1)])
        else:
            s += rng.choice(RICH)
    if s.startswith(delim):
        s = 'w' + s
    return s


def rich_pairs(rng, delim, lo, hi):
    out = []
    seen = set()
    for _ in range(rng.randint(lo, hi)):
        k = rich_word(rng, delim, 1, 7)
        while k in seen:
            k += 'k'
        seen.add(k)
        out.append([k, rich_word(rng, delim, 1, 12)])
    return out


def byte_fault(rng, raw, delim):
    """one stored-byte fault over the alphabet {delimiter, a, b}"""
    kind = rng.choice(['flip_to_delim', 'flip_from_delim', 'insert_delim', 'delete_delim',
                       'double_delim', 'cut_tail', 'insert_char'])
    if not raw:
        return raw + delim, 'insert_delim'
    pos_d = [i for i, c in enumerate(raw) if c == delim]
    pos_o = [i for i, c in enumerate(raw) if c != delim]
    if kind == 'flip_to_delim' and pos_o:
        i = rng.choice(pos_o)
        return raw[:i] + delim + raw[i + 1:], kind
    if kind == 'flip_from_delim' and pos_d:
        i = rng.choice(pos_d)
        return raw[:i] + rng.choice('ab') + raw[i + 1:], kind
    if kind == 'delete_delim' and pos_d:
        i = rng.choice(pos_d)
        return raw[:i] + raw[i + 1:], kind
    if kind == 'double_delim' and pos_d:
        i = rng.choice(pos_d)
        return raw[:i] + delim + raw[i:], kind
    if kind == 'cut_tail':
        i = rng.randint(0, len(raw) - 1)
        return raw[:i], kind
    if kind == 'insert_char':
        i = rng.randint(0, len(raw))
        return raw[:i] + rng.choice('ab') + raw[i:], kind
    i = rng.randint(0, len(raw))
    return raw[:i] + delim + raw[i:], 'insert_delim'


class ShortReadBuf(io.BytesIO):
    """A raw stream: read(n) may legally return fewer than n bytes before EOF (pipes, network and FUSE file
    systems, unbuffered files). Every read is capped at `cap` bytes."""

    def __init__(self, data, cap):
        io.BytesIO.__init__(self, data)
        self.cap = cap
        self.short = 0

    def read(self, n=-1):
        if n is None or n < 0 or n > self.cap:
            n = self.cap
            self.short += 1
        return io.BytesIO.read(self, n)


def run_parser(F, raw, delim, sup, pre='', post='', pass_delim=True, cap=None):
    data = (pre + raw + post).encode(fcs_ref.ENC)
    buf = io.BytesIO(data) if cap is None else ShortReadBuf(data, cap)
    begin = len(pre)
    end = begin + len(raw) - 1
    with warnings.catch_warnings(record=True) as w:
        warnings.simplefilter('always')
        try:
            t, d = F.io.read_fcs_text_segment(buf, begin, end,
                                              delim=(delim if (pass_delim or sup) else None),
                                              supplemental=sup)
        except Exception as e:
            return ('err', type(e).__name__, [])
    ws = [str(x.message) for x in w]
    return ('warned' if any('ill-formed' in m for m in ws) else 'ok', t, d)


def judge(ref, got):
    """ref: (cls, dict|reason); got: run_parser result. Returns None or (clause, outcome, detail)."""
    rc = ref[0]
    gk = got[0]
    if rc == 'dc':
        return None
    if rc == 'ok':
        if gk == 'err':
            return ('C14/wellformed-refused', 'raise', 'well-formed segment refused with %s' % got[1])
        if got[1] != ref[1]:
            return ('C14/repaired', gk, 'read back as %r, written %r' % (got[1], ref[1]))
        return None
    if rc == 'tol':
        if gk == 'err':
            return None
        if got[1] != ref[1]:
            return ('C14/repaired', gk, 'tolerated ending read as %r, reference %r' % (got[1], ref[1]))
        if gk != 'warned':
            return ('C14/tolerated-without-warning', gk, 'ill-formed ending read without warning')
        return None
    # rc == 'err'
    if gk == 'err':
        return None
    return ('C14/illformed-accepted', gk, 'ill-formed segment (%s) read as %r' % (ref[1], got[1]))


def seg_sig(raw, delim, sup, rc, gk):
    runs = [len(list(g)) for k, g in itertools.groupby(raw) if k == delim]
    return '%s|%s|%s|r%d|m%d' % ('sup' if sup else 'pri', rc, gk, min(len(runs), 6),
                                 (max(runs) if runs else 0) % 2 + 2 * (min(max(runs), 5) if runs else 0))


class C14Machine(Machine):
    prop = 'C14'
    level = 'exploration'
    rule = ('differential against the left-to-right reference tokenizer: (walk) ALL strings over {delimiter,a,b} up '
            'to a bounded length for primary and supplemental segments, (direct) seeded dictionaries over a rich '
            'alphabet and every printable delimiter, encoded by the escaping rule, intact and with 1-3 stored-byte '
            'faults (flip to/from delimiter, insert/delete/double a delimiter, cut the tail), read from a buffer '
            'with junk around the segment, (file) the same dictionaries inside generated FCS files on the simulated '
            'disk read through FCSFile; distinct = distinct (segment kind, reference class, loader outcome, number '
            'of delimiter runs, longest-run class) tuples with >= 1 pair or >= 1 fault')
    real_components = ['FlowCal.io.read_fcs_text_segment (real)', 'FlowCal.io.FCSFile on tmpfs (real) in the file arm']
    stubbed_components = ['storage for the direct arm is an in-memory buffer (io.BytesIO)']
    not_modelled = ['multi-byte encodings (the reader is fixed to ISO-8859-1)']
    assumptions = ['two don\'t-care classes where the FCS rule does not single out one reading: a segment that is only a '
                   'leading delimiter run, and warned endings with >= 4 trailing delimiters; duplicated keywords']

    WALK_PREFIX = 3

    def plan(self, tier):
        if tier == 'quick':
            self_L = 9
            return {'runs': self.n_walk() + 1500, 'budget_s': 100, 'batch': 10, 'L': self_L}
        return {'runs': self.n_walk() + 600000, 'budget_s': 1500, 'batch': 20, 'L': 14, 'exhaustive': False}  # walk to length 14 is exhaustive, the random arms are not

    def n_walk(self):
        return 3 ** self.WALK_PREFIX + 1

    def generate(self, rng, tier, index):
        L = 9 if tier == 'quick' else 14
        nw = self.n_walk()
        if index < nw:
            if index == 0:
                return {'arm': 'walk', 'prefix': None, 'L': self.WALK_PREFIX - 1}
            p = ''.join(itertools.islice(itertools.product('/ab', repeat=self.WALK_PREFIX), index - 1, index).__next__())
            return {'arm': 'walk', 'prefix': p, 'L': L}
        if rng.chance(0.04):
            # sibling files: the same (large, > 4 kB) primary TEXT byte for byte, different supplemental TEXT of the
            # same length, read one after the other in one process (instrument software exports whole plates
            # like this)
            spec = fcsgen.gen_spec(rng, small=True, keywords=False, version=rng.choice(['FCS3.0', 'FCS3.1']))
            d = rng.choice(['/', '|', '\x0c', '!'])
            spec['delim'] = d
            spec['pads'] = []
            spec['shuffle'] = None
            spec['extra'] = [['K%03d' % i, rich_word(rng, d, 20, 40)] for i in range(rng.choice([20, 110, 140]))]
            spec['stext'] = [['SAMPLE ID', 'well-A01'], ['OPERATOR', 'alice'], ['S' + rich_word(rng, d, 1, 4), 'v1']]
            spec['stext_lead'] = True
            spec['order'] = ['TEXT', 'DATA', 'STEXT']
            sib = copy.deepcopy(spec)
            sib['stext'] = [['SAMPLE ID', 'well-B07'], ['OPERATRX', 'carol'], [spec['stext'][2][0], 'v2']]
            return {'arm': 'siblings', 'spec': spec, 'sibling': sib}
        if rng.chance(0.25):
            # file arm: delimiter must not start any keyword or value of the file
            for _ in range(50):
                spec = fcsgen.gen_spec(rng, small=True, keywords=False)
                d = rng.choice(PRINTABLE) if rng.chance(0.6) else rng.choice(fcsgen.DELIMS)
                spec['delim'] = d
                spec['extra'] = rich_pairs(rng, d, 0, 4)
                if spec['version'] != 'FCS2.0' and rng.chance(0.12):
                    # a reserved, blank supplemental region (padding only, no delimiter in it)
                    spec['stext_blank'] = [rng.choice([' ', '\x00']), rng.randint(1, 40)]
                    if spec['stext_blank'][0] == d:
                        spec['stext_blank'][0] = '\x00' if d != '\x00' else ' '
                    spec['order'].insert(rng.randint(0, len(spec['order'])), 'STEXT')
                elif spec['version'] != 'FCS2.0' and rng.chance(0.6):
                    spec['stext'] = rich_pairs(rng, d, 1, 3)
                    spec['stext_lead'] = rng.chance(0.6)
                    spec['order'].insert(rng.randint(0, len(spec['order'])), 'STEXT')
                if rng.chance(0.6):
                    spec['analysis'] = rich_pairs(rng, d, 1, 3)
                    spec['analysis_lead'] = rng.chance(0.6)
                    spec['order'].insert(rng.randint(0, len(spec['order'])), 'ANALYSIS')
                spec['pads'] = []
                try:
                    b, info = fcs_ref.build(spec)
                except fcs_ref.LayoutError:
                    continue
                toks = [t for kv in info['truth']['text'].items() for t in kv] + \
                       [t for kv in info['truth']['analysis'].items() for t in kv]
                if not any(t.startswith(d) or t == '' for t in toks):
                    return {'arm': 'file', 'spec': spec}
            return {'arm': 'file', 'spec': fcsgen.gen_spec(rng, small=True)}
        items = []
        for _ in range(40):
            d = rng.choice(PRINTABLE) if rng.chance(0.5) else '/'
            sup = rng.chance(0.5)
            pairs = rich_pairs(rng, d, 0, 4)
            lead = True if not sup else rng.chance(0.6)
            raw = fcs_ref.encode_text(pairs, d, lead=lead) if (pairs or not sup) else ''
            faults = []
            if rng.chance(0.6):
                for _k in range(rng.randint(1, 3)):
                    raw, kind = byte_fault(rng, raw, d)
                    faults.append(kind)
            if rng.chance(0.2):
                raw += rng.choice(['junk', ' ', '\x00\x00', 'ab'])       # chars after the last delimiter
                faults.append('trailing_chars')
            cap = None
            if rng.chance(0.15):
                cap = rng.choice([1, 3, 8, 16, 64])          # short reads from a raw stream
            items.append({'raw': raw, 'delim': d, 'sup': sup, 'faults': faults, 'cap': cap,
                          'pre': 'HDR' * rng.randint(0, 3), 'post': rng.choice(['', d, 'zz' + d, d + d]),
                          'pass_delim': rng.chance(0.5)})
        return {'arm': 'direct', 'items': items}

    def summarise(self, case):
        if case['arm'] == 'direct':
            return {'arm': 'direct', 'items': case['items'][:3], 'n_items': len(case['items'])}
        if case['arm'] == 'file':
            return fcsload.C01Machine().summarise({'arm': 'intact', 'spec': case['spec']})
        if case['arm'] == 'siblings':
            return {'arm': 'siblings', 'n_extra': len(case['spec']['extra']), 'stext': case['spec']['stext'],
                    'sibling_stext': case['sibling']['stext']}
        return case

    # ------------------------------------------------------------------
    def execute(self, case):
        import FlowCal as F
        log = OpLog()
        out = {'violations': [], 'sigs': set(), 'faults': {}, 'probes': {}, 'evals': 0}

        def bump(d, k, n=1):
            d[k] = d.get(k, 0) + n

        def one(raw, delim, sup, pre='', post='', pass_delim=True, faults=(), cap=None):
            if not sup and not pass_delim and raw:
                delim = raw[0]          # a primary segment read without a given delimiter defines its own
            ref = fcs_ref.tokenize(raw, delim, sup)
            got = run_parser(F, raw, delim, sup, pre, post, pass_delim, cap)
            out['evals'] += 1
            j = judge(ref, got)
            if cap is not None and len(raw) > cap:
                # fault arm (short read actually happened): the reader may refuse, but must never return other pairs
                bump(out['faults'], 'short_read')
                if got[0] == 'err':
                    j = None
                    bump(out['probes'], 'short_read_refused')
            bump(out['probes'], 'ref_' + ref[0])
            if ref[0] == 'tol' and got[0] == 'warned':
                bump(out['probes'], 'tolerated_ending_read_with_warning')
            for f in faults:
                bump(out['faults'], f)
            if (ref[0] != 'err' and ref[1]) or faults or delim in raw[1:]:
                out['sigs'].add(seg_sig(raw, delim, sup, ref[0], got[0]))
            if j is not None:
                out['violations'].append(violation(
                    j[0], '%s/%s/%s' % ('supplemental' if sup else 'primary', ref[0], j[1]),
                    '%s; segment=%r delim=%r' % (j[2], raw, delim)))
            return ref[0], got[0]

        if case['arm'] == 'walk':
            cnt = {}
            if case['prefix'] is None:
                strings = (''.join(t) for n in range(0, case['L'] + 1) for t in itertools.product('/ab', repeat=n))
            else:
                p = case['prefix']
                strings = (p + ''.join(t) for n in range(0, case['L'] - len(p) + 1)
                           for t in itertools.product('/ab', repeat=n))
            for s in strings:
                for sup in (False, True):
                    r, g = one(s, '/', sup)
                    cnt[(sup, r, g)] = cnt.get((sup, r, g), 0) + 1
            for k in sorted(cnt):
                log.add('walk', case['prefix'], k[0], k[1], k[2], cnt[k])
            bump(out['probes'], 'walk_strings', sum(cnt.values()))
        elif case['arm'] == 'direct':
            for it in case['items']:
                r, g = one(it['raw'], it['delim'], it['sup'], it.get('pre', ''), it.get('post', ''),
                           it.get('pass_delim', True), it.get('faults', ()), it.get('cap'))
                log.add('direct', it['raw'], it['delim'], it['sup'], r, g)
        elif case['arm'] == 'siblings':
            dk = simdisk.SimDisk('c14s')
            try:
                ld = fcsload.Loader(dk)
                seq = [('a.fcs', case['spec']), ('b.fcs', case['sibling']), ('a.fcs', case['spec'])]
                for name, sp in seq:
                    bb, inf = fcs_ref.build(sp)
                    dk.write(name, bb)
                    o = ld.load(name)
                    out['evals'] += 1
                    log.add('sibling', name, o['kind'], sorted(o.get('text', {}).items())[-4:])
                    if o['kind'] == 'exc':
                        out['violations'].append(violation('C14/wellformed-refused', 'siblings/raise', '%s: %s' % (o['exc'], o['msg'])))
                    elif o['text'] != inf['truth']['text']:
                        diff = sorted(set(inf['truth']['text'].items()) ^ set(o['text'].items()))[:4]
                        out['violations'].append(violation(
                            'C14/repaired', 'siblings/text', 'file %s read after its sibling: keywords differ from what was '
                            'written: %r' % (name, diff)))
                    # and the primary segment alone, straight from the bytes
                    a_, e_ = inf['seg']['TEXT']
                    got = run_parser(F, bb[a_:e_ + 1].decode(fcs_ref.ENC), sp['delim'], False)
                    ref = fcs_ref.tokenize(bb[a_:e_ + 1].decode(fcs_ref.ENC), sp['delim'], False)
                    j = judge(ref, got)
                    if j is not None:
                        out['violations'].append(violation(j[0], 'siblings/primary-direct/' + j[1], j[2][:300]))
                bump(out['probes'], 'sibling_files_same_primary_text')
                out['sigs'].add('siblings|%s|%d' % (case['spec']['version'], len(case['spec']['extra']) // 50))
            finally:
                dk.teardown()
        else:
            spec = case['spec']
            b, info = fcs_ref.build(spec)
            T = info['truth']
            dk = simdisk.SimDisk('c14')
            try:
                dk.write('f.fcs', b)
                o = fcsload.Loader(dk).load('f.fcs')
                out['evals'] += 1
                log.add('file', o['kind'], o.get('exc'), sorted(o.get('text', {}).items()),
                        sorted(o.get('analysis', {}).items()))
                site = 'file/%s' % spec['version']
                if o['kind'] == 'exc':
                    out['violations'].append(violation('C14/wellformed-refused', site + '/raise',
                                                       '%s: %s; delim=%r' % (o['exc'], o['msg'], spec['delim'])))
                else:
                    if o['text'] != T['text']:
                        missing = sorted(set(T['text'].items()) ^ set(o['text'].items()))[:4]
                        out['violations'].append(violation(
                            'C14/repaired', site + ('/stext' if spec.get('stext') else '/text'),
                            'TEXT read back differently: %r; delim=%r' % (missing, spec['delim'])))
                    if o['analysis'] != T['analysis']:
                        out['violations'].append(violation(
                            'C14/repaired', site + '/analysis',
                            'ANALYSIS read back as %r, written %r; delim=%r' % (o['analysis'], T['analysis'], spec['delim'])))
                    if spec.get('stext'):
                        bump(out['probes'], 'supplemental_merged')
                    if spec.get('analysis') and spec['delim'] != '/':
                        bump(out['probes'], 'analysis_with_non_slash_delimiter')
                out['sigs'].add('file|%s|%s|%s|%s' % (spec['version'], bool(spec.get('stext')), bool(spec.get('analysis')),
                                                      'slash' if spec['delim'] == '/' else 'other'))
            finally:
                dk.teardown()
        out['digest'] = log.digest()
        out['summary'] = {'evals': out['evals'], 'violations': len(out['violations'])}
        return out

    # ------------------------------------------------------------------
    def shrink_candidates(self, case):
        if case['arm'] == 'walk':
            # turn the walk into explicit items, one per string of the chunk that fails
            import FlowCal as F
            if case['prefix'] is None:
                strings = (''.join(t) for n in range(0, case['L'] + 1) for t in itertools.product('/ab', repeat=n))
            else:
                p = case['prefix']
                strings = (p + ''.join(t) for n in range(0, case['L'] - len(p) + 1)
                           for t in itertools.product('/ab', repeat=n))
            for s in strings:
                for sup in (False, True):
                    if judge(fcs_ref.tokenize(s, '/', sup), run_parser(F, s, '/', sup)) is not None:
                        yield {'arm': 'direct', 'items': [{'raw': s, 'delim': '/', 'sup': sup}]}
            return
        if case['arm'] == 'direct':
            if len(case['items']) > 1:
                for its in list_reductions(case['items'], 1):
                    yield {'arm': 'direct', 'items': its}
                return
            it = case['items'][0]
            for k in ('pre', 'post'):
                if it.get(k):
                    c = copy.deepcopy(it)
                    c[k] = ''
                    yield {'arm': 'direct', 'items': [c]}
            raw = it['raw']
            for i in range(len(raw)):
                c = copy.deepcopy(it)
                c['raw'] = raw[:i] + raw[i + 1:]
                yield {'arm': 'direct', 'items': [c]}
            for i, ch in enumerate(raw):
                if ch != it['delim'] and ch != 'a':
                    c = copy.deepcopy(it)
                    c['raw'] = raw[:i] + 'a' + raw[i + 1:]
                    yield {'arm': 'direct', 'items': [c]}
            return
        if case['arm'] == 'siblings':
            return
        for cand in fcsload.C01Machine().shrink_candidates({'arm': 'intact', 'spec': case['spec']}):
            yield {'arm': 'file', 'spec': cand['spec']}
        for k in ('extra', 'stext', 'analysis'):
            lst = case['spec'].get(k) or []
            for red in list_reductions(lst, 1):
                c = copy.deepcopy(case)
                c['spec'][k] = red
                yield c
