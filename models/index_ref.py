"""Reference model of FCSData indexing (C04): a plain ndarray (view into a model base
buffer, so that aliasing between handles is exactly NumPy's) plus parallel per-column
metadata lists. Knows nothing about FlowCal."""
import numpy as np

ATTRS = ['channels', 'range', 'resolution', 'amplification_type', 'amplifier_gain',
         'detector_voltage', 'channel_labels']


class Refused(Exception):
    """The model says the expression must be refused (unknown name / out of range)."""


def dec(k):
    """tagged JSON form -> python index object as the user would write it"""
    t = k['t']
    if t == 'absent':
        return None
    if t in ('int', 'name'):
        return k['v']
    if t == 'slice':
        return slice(*k['v'])
    if t == 'list':
        return list(k['v'])
    if t == 'tuple':
        return tuple(k['v'])
    if t in ('mask', 'boollist'):
        return [bool(x) for x in k['v']] if t == 'boollist' else np.array(k['v'], dtype=bool)
    if t == 'ell':
        return Ellipsis
    if t == 'nested':
        return [list(x) for x in k['v']]
    if t == 'npmask':
        return np.array(k['v'], dtype=bool)
    if t == 'npint':
        return np.int64(k['v'])
    if t == 'ndarray':
        return np.array(k['v'], dtype=np.int64)
    if t == 'range':
        return range(*k['v'])
    raise ValueError(t)


def form(k):
    t = k['t']
    if t == 'int':
        return 'int' if k['v'] >= 0 else '-int'
    if t == 'slice':
        return 'slice' + ('/step' if k['v'][2] not in (None, 1) else '')
    if t in ('list', 'tuple'):
        kinds = {('s' if isinstance(x, str) else 'i') for x in k['v']}
        return t + '/' + ('mixed' if len(kinds) == 2 else ('names' if kinds == {'s'} else ('ints' if kinds else 'empty')))
    return t


def user_key(rows, cols):
    r = dec(rows)
    if cols['t'] == 'absent':
        return r
    return (r, dec(cols))


def col_positions(cols, names):
    """positions selected by the column key (list, slice or scalar), names resolved.
    Returns (np_key_component, positions or None, is_scalar)"""
    t = cols['t']
    nm = list(names)

    def one(x):
        if isinstance(x, str):
            if x not in nm:
                raise Refused('unknown channel name %r' % x)
            return nm.index(x)
        return x
    D = len(nm)
    if t == 'name' or t == 'int':
        p = one(cols['v'])
        if not -D <= p < D:
            raise Refused('position out of range')
        return p, [p], True
    if t == 'npint':
        p = int(cols['v'])
        if not -D <= p < D:
            raise Refused('position out of range')
        return p, [p], True
    if t == 'slice':
        s = slice(*cols['v'])
        return s, list(range(D))[s], False
    if t in ('list', 'tuple', 'ndarray', 'range'):
        raw = list(range(*cols['v'])) if t == 'range' else list(cols['v'])
        ps = [one(x) for x in raw]
        for p in ps:
            if not -D <= p < D:
                raise Refused('position out of range')
        return ps, ps, False
    if t in ('boollist', 'npmask'):
        m = [bool(x) for x in cols['v']]
        if len(m) != D:
            raise Refused('boolean column list of wrong length')
        return np.array(m, dtype=bool), [i for i, b in enumerate(m) if b], False
    if t == 'ell':
        return Ellipsis, list(range(D)), False
    if t == 'nested':
        # a list of lists: NumPy's own (2-D fancy) semantics for the values, no claim about metadata
        def rec(x):
            if isinstance(x, list):
                return [rec(y) for y in x]
            p = one(x)
            if not -D <= p < D:
                raise Refused('position out of range')
            return p
        return rec(list(cols['v'])), None, False
    raise ValueError(t)


class MHandle(object):
    """model handle: values (ndarray, possibly a view of another handle's buffer), per-element
    metadata (list of dicts) or None when the class does not define alignment, role."""

    def __init__(self, vals, meta, role):
        self.vals = vals
        self.meta = meta
        self.role = role          # '2d' | '1d-col' | '1d-row' | '1d-other' | 'scalar'

    @property
    def names(self):
        return [m['channels'] for m in self.meta] if self.meta is not None else []


def m_getitem(h, rows, cols):
    """Returns MHandle (or raises Refused / numpy's own exception)."""
    r = dec(rows)
    if h.role == '2d':
        if cols['t'] == 'absent':
            v = h.vals[r]
            if v.ndim == 2:
                return MHandle(v, [dict(m) for m in h.meta], '2d')
            if v.ndim == 1:
                return MHandle(v, [dict(m) for m in h.meta], '1d-row')
            if v.ndim == 0 or np.isscalar(v):
                return MHandle(v, None, 'scalar')
            return MHandle(v, None, 'other')
        ck, pos, scalar = col_positions(cols, h.names)
        v = h.vals[r, ck] if cols['t'] != 'ell' else h.vals[r, ...]
        if pos is None:
            return MHandle(v, None, 'scalar' if np.ndim(v) == 0 else 'other')
        meta = [dict(h.meta[p]) for p in pos]
        if np.ndim(v) == 0:
            return MHandle(v, None, 'scalar')
        if np.ndim(v) == 2:
            return MHandle(v, meta, '2d')
        if scalar:
            return MHandle(v, meta, '1d-col')
        # rows scalar (or paired fancy indexing): elements correspond to the selected columns one to one
        if len(meta) == v.shape[0]:
            return MHandle(v, meta, '1d-row')
        return MHandle(v, None, '1d-other')
    # 1-D handles: plain NumPy semantics for the values
    if cols['t'] == 'absent':
        v = h.vals[r]
    else:
        ck, pos, scalar = col_positions(cols, h.names) if h.meta is not None else (dec(cols), None, False)
        v = h.vals[r, ck]
    if np.ndim(v) == 0:
        return MHandle(v, None, 'scalar')
    if h.role == '1d-col' and cols['t'] == 'absent':
        return MHandle(v, [dict(m) for m in h.meta], '1d-col')
    # a two-part key on a 1-D sample (NumPy accepts it only with an Ellipsis): the class cannot know
    # which axis the second part addresses and the property does not define it -> values only
    return MHandle(v, None, '1d-other')


def m_setitem(h, rows, cols, value):
    r = dec(rows)
    if cols['t'] == 'absent':
        h.vals[r] = value
        return
    if h.meta is not None:
        ck, pos, scalar = col_positions(cols, h.names)
    else:
        ck = dec(cols)
    if cols['t'] == 'ell':
        h.vals[r, ...] = value
    else:
        h.vals[r, ck] = value
