"""Reference derivation of acquisition metadata from TEXT keywords (C17).

Independent of FlowCal.io: own time/date parsing, own two-digit-year rule.
Every function returns a *set of acceptable answers* encoded as a list, because a few
combinations are genuinely ambiguous in the property text (documented inline)."""
import datetime
import re

MONTHS = {m: i + 1 for i, m in enumerate(
    ['jan', 'feb', 'mar', 'apr', 'may', 'jun', 'jul', 'aug', 'sep', 'oct', 'nov', 'dec'])}
_NUM = re.compile(r'^[+-]?(\d+(\.\d*)?|\.\d+)([eE][+-]?\d+)?$')


def parse_float(s):
    """None when the string is not a plain decimal number."""
    if s is None:
        return None
    if _NUM.match(s):
        return float(s)
    return None


def parse_time(s):
    """-> (hour, minute, second, microsecond) or None.
    Accepted: hh:mm:ss | hh:mm:ss:tt (tt in 1/60 s) | hh:mm:ss.cc (decimal fraction)."""
    if s is None:
        return None
    parts = s.split(':')
    frac_us = 0
    if len(parts) == 3:
        sec = parts[2]
        if '.' in sec:
            sec, cc = sec.split('.', 1)
            if not re.match(r'^\d{1,6}$', cc):
                return None
            frac_us = int(round(float('0.' + cc) * 1e6))
        parts = [parts[0], parts[1], sec]
    elif len(parts) == 4:
        tt = parts[3]
        if not re.match(r'^\d+(\.\d*)?$', tt):
            return None
        t = float(tt)
        if not (0 <= t < 60):
            return None
        frac_us = t * 1e6 / 60.0          # compared with +-1 us tolerance
        parts = parts[:3]
    else:
        return None
    if not all(re.match(r'^\d{1,2}$', p) for p in parts):
        return None
    h, m, sec = (int(p) for p in parts)
    if h > 23 or m > 59 or sec > 59:       # (strptime accepts second 60/61: treated as out of range here)
        return None
    return (h, m, sec, frac_us)


def _yy(y):
    return 1900 + y if y >= 69 else 2000 + y


def parse_date(s):
    """-> list of acceptable datetime.date (empty list = must be None)."""
    if s is None:
        return []
    m = re.match(r'^(\d{1,4})-([A-Za-z]{3})-(\d{1,4})$', s)
    if not m:
        return []
    a, mon, c = m.group(1), m.group(2).lower(), m.group(3)
    if mon not in MONTHS:
        return []
    mo = MONTHS[mon]
    out = []

    def mk(y, d):
        try:
            out.append(datetime.date(y, mo, d))
        except ValueError:
            pass
    # precedence of the documented formats: dd-mmm-yy, dd-mmm-yyyy, yy-mmm-dd, yyyy-mmm-dd
    if len(a) <= 2 and len(c) == 2:
        mk(_yy(int(c)), int(a))
        if out:
            return out[:1]
    if len(a) <= 2 and len(c) == 4:
        mk(int(c), int(a))
        if out:
            return out[:1]
    if len(a) == 2 and len(c) <= 2:
        mk(_yy(int(a)), int(c))
        if out:
            return out[:1]
    if len(a) == 4 and len(c) <= 2:
        mk(int(a), int(c))
    return out[:1]


def expected(text, n_params):
    """Expected attributes derived from the keyword dictionary `text`."""
    E = {}
    E['channels'] = tuple(text.get('$P%dN' % i) for i in range(1, n_params + 1))
    E['channel_labels'] = [text.get('$P%dS' % i) for i in range(1, n_params + 1)]
    E['data_type'] = text.get('$DATATYPE')
    rng, res, amp = [], [], []
    for i in range(1, n_params + 1):
        R = float(text['$P%dR' % i])
        rng.append([0.0, R - 1])
        res.append(int(R))
        e = text.get('$P%dE' % i)
        if e is None:
            amp.append(None)
        else:
            f1, f2 = (float(x) for x in e.split(','))
            if f1 != 0.0 and f2 == 0.0:
                f2 = 1.0
            amp.append((f1, f2))
    E['range'], E['resolution'], E['amplification_type'] = rng, res, amp
    creator = text.get('CREATOR') or ''
    volt, gain = [], []
    for i in range(1, n_params + 1):
        v = text.get('$P%dV' % i)
        acc = []
        if v is not None:
            acc.append(parse_float(v))
            if parse_float(v) is None and 'CellQuest Pro' in creator:
                # garbled standard keyword with a vendor fallback present: either source is defensible
                acc.append(parse_float(text.get('BD$WORD%d' % (12 + i))))
        elif 'CellQuest Pro' in creator:
            acc.append(parse_float(text.get('BD$WORD%d' % (12 + i))))
        else:
            acc.append(None)
        volt.append(acc)
        g = text.get('$P%dG' % i)
        acc = []
        if g is not None:
            acc.append(parse_float(g))
            if parse_float(g) is None and 'FlowJoCollectorsEdition' in creator:
                acc.append(parse_float(text.get('CytekP%02dG' % i)))
        elif 'FlowJoCollectorsEdition' in creator:
            acc.append(parse_float(text.get('CytekP%02dG' % i)))
        else:
            acc.append(None)
        gain.append(acc)
    E['detector_voltage'], E['amplifier_gain'] = volt, gain
    # time step: standard keyword, else legacy keyword (milliseconds)
    ts = []
    if '$TIMESTEP' in text:
        v = parse_float(text['$TIMESTEP'])
        ts.append(v)
        if v is None and 'TIMETICKS' in text:
            t2 = parse_float(text['TIMETICKS'])
            ts.append(None if t2 is None else t2 / 1000.)
    elif 'TIMETICKS' in text:
        t2 = parse_float(text['TIMETICKS'])
        ts.append(None if t2 is None else t2 / 1000.)
    else:
        ts.append(None)
    E['time_step'] = ts
    E['date'] = parse_date(text.get('$DATE'))
    E['btim'] = parse_time(text.get('$BTIM'))
    E['etim'] = parse_time(text.get('$ETIM'))
    return E


def time_matches(got, exp_t, exp_dates):
    """got: None | datetime.time | datetime.datetime"""
    if exp_t is None:
        return got is None
    if got is None:
        return False
    h, m, s, us = exp_t
    if exp_dates:
        if not isinstance(got, datetime.datetime):
            return False
        if got.date() != exp_dates[0]:
            return False
        g = got.time()
    else:
        if isinstance(got, datetime.datetime) or not isinstance(got, datetime.time):
            return False
        g = got
    return (g.hour, g.minute, g.second) == (h, m, s) and abs(g.microsecond - us) <= 1.0


def seconds_of(t):
    h, m, s, us = t
    return h * 3600 + m * 60 + s + us / 1e6
