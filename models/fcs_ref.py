"""
Reference model of the FCS container format, written independently of
FlowCal.io (left-to-right tokenizer, int.from_bytes decoding).

Three things live here:

* ``build(spec)``      -- FCS *writer* with ground truth: renders a JSON-able
                          layout spec to bytes and returns what an intact
                          load must yield (events, TEXT dict, ANALYSIS dict)
                          plus a map of segment extents.
* ``tokenize(...)``    -- three-valued reference tokenizer for TEXT-like
                          segments: well-formed / tolerated / ill-formed /
                          don't-care.
* ``ref_load(bytes)``  -- reference loader implementing the documented rules,
                          including the tolerated one-past-the-end DATA offset.

Nothing here imports FlowCal.
"""
import math
import random
import struct

import numpy as np

ENC = 'ISO-8859-1'
OFFSET_KEYS = ('$BEGINANALYSIS', '$ENDANALYSIS', '$BEGINDATA', '$ENDDATA',
               '$BEGINSTEXT', '$ENDSTEXT')
BYTEORDS_BIG = ('4,3,2,1', '2,1')
BYTEORDS_LITTLE = ('1,2,3,4', '1,2')


# ---------------------------------------------------------------------------
# TEXT encoding / tokenizing
# ---------------------------------------------------------------------------

def esc(s, d):
    return s.replace(d, d + d)


def encode_text(pairs, delim, lead=True, trail=True):
    """FCS escaping rule: delimiter inside a keyword or value is doubled."""
    s = delim if lead else ''
    n = len(pairs)
    for i, (k, v) in enumerate(pairs):
        s += esc(k, delim) + delim + esc(v, delim)
        if trail or i < n - 1:
            s += delim
    return s


def tokenize(raw, delim, supplemental):
    """
    Left-to-right reference tokenizer.

    Returns (cls, dict_or_reason) with cls in
      'ok'   : well formed, must be read back as exactly this dict
      'tol'  : the one tolerated ill-formed ending (unpaired delimiter right
               before the closing one) -- dict expected, warning expected
      'err'  : ill formed, must be refused
      'dc'   : don't-care class (documented in DESIGN.md C14): the FCS rule
               does not single out one reading
    """
    D = delim
    if raw == '':
        return ('ok', {})
    if not supplemental and raw[0] != D:
        return ('err', 'primary segment does not start with delimiter')
    last = raw.rfind(D)
    if last == -1:
        return ('ok', {}) if supplemental else ('err', 'no delimiter')
    body = raw[:last]          # closing delimiter and trailing chars dropped
    # don't-care class 1: segment begins with two delimiters and contains no
    # further delimiter-separated structure ("//x": empty segment whose value
    # is junk vs. keyword starting with a delimiter)
    if raw.startswith(D + D):
        k = 0
        while k < len(raw) and raw[k] == D:
            k += 1
        if D not in raw[k:]:
            return ('dc', 'leading delimiter run only')
    # don't-care class 2: warned ending with >= 4 trailing delimiters
    # (run counted up to and including the last delimiter; characters after
    # the last delimiter are ignored by the rule)
    t = 0
    while t <= last and raw[last - t] == D:
        t += 1
    i = 1 if body.startswith(D) else 0
    toks = []
    cur = ''
    tol = False
    while i < len(body):
        c = body[i]
        if c != D:
            cur += c
            i += 1
            continue
        j = i
        while j < len(body) and body[j] == D:
            j += 1
        k = j - i
        if cur == '':
            return ('err', 'keyword or value starts with delimiter')
        if j == len(body):
            # run directly in front of the closing delimiter
            cur += D * (k // 2)
            if k % 2 == 1:
                tol = True
            i = j
            continue
        cur += D * (k // 2)
        if k % 2 == 1:
            toks.append(cur)
            cur = ''
        i = j
    if cur != '':
        toks.append(cur)
    if tol and t >= 4:
        return ('dc', 'warned ending with >=4 trailing delimiters')
    if len(toks) % 2:
        return ('err', 'odd number of keys+values')
    d = dict(zip(toks[0::2], toks[1::2]))
    if len(d) != len(toks) // 2:
        # duplicated keyword: later one wins in any dict-based reader; the
        # rule does not say -- treat as don't-care for equality of content
        return ('dc', 'duplicate keyword')
    return ('tol' if tol else 'ok', d)


# ---------------------------------------------------------------------------
# writer
# ---------------------------------------------------------------------------

def _mask_bits(rng_value):
    """number of low bits implied by a declared range (ceil(log2 R))."""
    r = int(rng_value)
    if r <= 1:
        return 0
    return (r - 1).bit_length()


def n_events(spec):
    return spec['bulk']['n'] if spec.get('bulk') else len(spec['events'])


def bulk_values(spec):
    """Large event matrices are described by (n, seed) instead of explicit values (real files have 10^5..10^6
    events); values are drawn with numpy from the seed, column by column. Returns a list of per-column arrays."""
    g = np.random.default_rng(spec['bulk']['seed'])
    N = spec['bulk']['n']
    cols = []
    for w in spec['widths']:
        if spec['datatype'] == 'I':
            cols.append(g.integers(0, 1 << min(w, 63), size=N, dtype=np.uint64, endpoint=False))
        elif spec['datatype'] == 'F':
            cols.append(g.normal(0, 1000, N).astype('f4'))
        else:
            cols.append(g.normal(0, 1000, N).astype('f8'))
    return cols


def _bulk_bytes(spec):
    big = spec['byteord'] in BYTEORDS_BIG
    cols = bulk_values(spec)
    N = spec['bulk']['n']
    parts = []
    for v, w in zip(cols, spec['widths']):
        nb = w // 8
        if spec['datatype'] == 'I':
            b = v.astype('<u8').view(np.uint8).reshape(N, 8)[:, :nb]
        else:
            b = v.astype('<f%d' % nb).view(np.uint8).reshape(N, nb)
        parts.append(b[:, ::-1] if big else b)
    return np.ascontiguousarray(np.hstack(parts)).tobytes()


def _bulk_truth(spec):
    cols = bulk_values(spec)
    N = spec['bulk']['n']
    D = len(cols)
    if spec['datatype'] == 'I':
        mw = max(spec['widths'])
        up = 8
        while up < mw:
            up *= 2
        arr = np.zeros((N, D), dtype='u%d' % (up // 8))
        for j, v in enumerate(cols):
            bits = _mask_bits(spec['ranges'][j])
            arr[:, j] = (v & np.uint64((1 << bits) - 1 if bits < 64 else 0xFFFFFFFFFFFFFFFF)).astype(arr.dtype)
        return arr
    return np.column_stack(cols).astype('f4' if spec['datatype'] == 'F' else 'f8')


def encode_events(spec):
    if spec.get('bulk'):
        return _bulk_bytes(spec)
    dt = spec['datatype']
    big = spec['byteord'] in BYTEORDS_BIG
    ev = spec['events']
    if dt == 'I' or dt not in ('F', 'D'):
        bs = bytearray()
        for row in ev:
            for v, w in zip(row, spec['widths']):
                bs += int(v).to_bytes(w // 8, 'big' if big else 'little')
        return bytes(bs)
    fmt = ('>' if big else '<') + ('f' if dt == 'F' else 'd')
    bs = bytearray()
    for row in ev:
        for v in row:
            bs += struct.pack(fmt, v)
    return bytes(bs)


def truth_events(spec):
    """What an intact load must return (values; dtype kind/itemsize hint)."""
    if spec.get('bulk'):
        return _bulk_truth(spec)
    dt = spec['datatype']
    D = len(spec['widths'])
    ev = spec['events']
    N = len(ev)
    if dt == 'I':
        mw = max(spec['widths']) if D else 8
        up = 8
        while up < mw:
            up *= 2
        arr = np.zeros((N, D), dtype='u%d' % (up // 8))
        for i, row in enumerate(ev):
            for j, v in enumerate(row):
                bits = _mask_bits(spec['ranges'][j])
                arr[i, j] = int(v) & ((1 << bits) - 1)
        return arr
    arr = np.zeros((N, D), dtype='f4' if dt == 'F' else 'f8')
    for i, row in enumerate(ev):
        for j, v in enumerate(row):
            arr[i, j] = v
    return arr


def build(spec):
    """
    Render `spec` to bytes.

    Returns (bytes, info) where info has
      seg     : {'HEADER':(0,57), 'TEXT':(b,e), 'DATA':(b,e), ...} true extents
                (inclusive last byte; DATA with zero events has e == b-1)
      truth   : {'data': ndarray, 'text': dict, 'analysis': dict}
      fields  : the true declared value of every structural field
                (before overrides), as strings
    """
    version = spec['version']
    v3 = version in ('FCS3.0', 'FCS3.1')
    delim = spec['delim']
    D = len(spec['widths'])
    N = n_events(spec)
    W = spec.get('offset_width', 10)
    ov = spec.get('overrides') or {}
    data = encode_events(spec)
    st_pairs = [tuple(p) for p in (spec.get('stext') or [])]
    an_pairs = [tuple(p) for p in (spec.get('analysis') or [])]
    st = encode_text(st_pairs, delim, lead=spec.get('stext_lead', True)).encode(ENC) \
        if st_pairs else b''
    if spec.get('stext_blank'):
        st = (spec['stext_blank'][0] * spec['stext_blank'][1]).encode(ENC)
    an = encode_text(an_pairs, delim, lead=spec.get('analysis_lead', True)).encode(ENC) \
        if an_pairs else b''
    if spec.get('analysis_raw') is not None:
        an = spec['analysis_raw'].encode(ENC)
        cls_, an_d = tokenize(spec['analysis_raw'], delim, True)
        an_pairs = list(an_d.items()) if cls_ in ('ok', 'tol') else []
    names = spec.get('names') or ['P%d' % (j + 1) for j in range(D)]
    pne = spec.get('pne') or ['0,0'] * D

    def f(x):
        return str(x).rjust(W)

    def mk_text(offs):
        fields = {}
        pairs = []
        if v3:
            for k in OFFSET_KEYS:
                fields[k] = offs[k]
        fields['$BYTEORD'] = spec['byteord']
        fields['$DATATYPE'] = spec['datatype']
        fields['$MODE'] = spec.get('mode', 'L')
        npad = spec.get('numpad') or 0        # many exporters right-justify numeric values in a fixed width
        fields['$NEXTDATA'] = str(spec.get('nextdata', 0)).rjust(npad)
        fields['$PAR'] = str(D).rjust(npad)
        fields['$TOT'] = str(N).rjust(npad)
        for j in range(D):
            fields['$P%dB' % (j + 1)] = str(spec['widths'][j]).rjust(npad)
            fields['$P%dR' % (j + 1)] = str(spec['ranges'][j]).rjust(npad)
            if names[j] is not None:
                fields['$P%dN' % (j + 1)] = names[j]
            if pne[j] is not None:
                fields['$P%dE' % (j + 1)] = pne[j]
        true_fields = dict(fields)
        for k, v in ov.items():
            if k.startswith('H:'):
                continue
            if v is None:
                fields.pop(k, None)
            else:
                fields[k] = v
        pairs = list(fields.items())
        pairs += [tuple(p) for p in (spec.get('extra') or [])]
        sh = spec.get('shuffle')
        if sh is not None:
            random.Random(sh).shuffle(pairs)
        return encode_text(pairs, delim, lead=True,
                           trail=spec.get('text_trail', True)).encode(ENC), \
            true_fields, pairs

    z = f(0)
    offs = {k: z for k in OFFSET_KEYS}
    order = list(spec['order'])
    pads = [(b'\x00' * int(p[4:]) if p.startswith('big:') else bytes.fromhex(p)) for p in (spec.get('pads') or [])]

    def pad(i):
        return pads[i] if i < len(pads) else b''

    blobs = {'DATA': data, 'STEXT': st, 'ANALYSIS': an}
    # offsets are rendered fixed width, so one layout pass is exact; a second
    # pass only asserts that
    seg = {}
    for _pass in range(12):
        t, true_fields, pairs = mk_text(offs)
        blobs['TEXT'] = t
        pos = 58
        seg = {'HEADER': (0, 57)}
        k = 0
        for name in order:
            blob = blobs[name]
            if name in ('STEXT', 'ANALYSIS') and not blob:
                continue
            pos += len(pad(k))
            k += 1
            seg[name] = (pos, pos + len(blob) - 1)
            pos += len(blob)
        total = pos + len(pad(k))
        db, de = seg['DATA']
        de_decl = de + 1 if spec.get('end_plus_one') else de
        hdr_data = spec.get('header_data', True) or not v3
        offs2 = dict(offs)
        if v3:
            offs2['$BEGINDATA'], offs2['$ENDDATA'] = f(db), f(de_decl)
            if spec.get('text_data_zero') and hdr_data:
                offs2['$BEGINDATA'], offs2['$ENDDATA'] = z, z
            if 'STEXT' in seg:
                offs2['$BEGINSTEXT'], offs2['$ENDSTEXT'] = \
                    f(seg['STEXT'][0]), f(seg['STEXT'][1])
            if 'ANALYSIS' in seg and not spec.get('text_analysis_zero'):
                offs2['$BEGINANALYSIS'], offs2['$ENDANALYSIS'] = \
                    f(seg['ANALYSIS'][0]), f(seg['ANALYSIS'][1])
        if offs2 == offs:
            break
        offs = offs2
    t, true_fields, pairs = mk_text(offs)
    if len(t) != seg['TEXT'][1] - seg['TEXT'][0] + 1:
        raise LayoutError('offset layout did not converge')
    hd = (db, de_decl) if hdr_data else (0, 0)
    hdr_an = spec.get('header_analysis', True) or not v3
    ha = seg.get('ANALYSIS', (0, 0)) if hdr_an else (0, 0)
    hfields = {'H:text_begin': seg['TEXT'][0], 'H:text_end': seg['TEXT'][1],
               'H:data_begin': hd[0], 'H:data_end': hd[1],
               'H:analysis_begin': ha[0], 'H:analysis_end': ha[1]}
    true_h = dict(hfields)
    for k, v in ov.items():
        if k.startswith('H:'):
            hfields[k] = v
    hs = ('%-10s' % version)
    for k in ('H:text_begin', 'H:text_end', 'H:data_begin', 'H:data_end',
              'H:analysis_begin', 'H:analysis_end'):
        v = hfields[k]
        if k.startswith('H:analysis') and v == 0 and spec.get('blank_analysis'):
            hs += ' ' * 8
        else:
            hs += ('%8s' % v)[:8] if isinstance(v, str) else '%8d' % v
    h = hs.encode(ENC)
    assert len(h) == 58, (len(h), hs)
    out = bytearray(total)
    # fill padding bytes
    pos = 58
    k = 0
    for name in order:
        if name not in seg:
            continue
        p = pad(k)
        k += 1
        a, b = seg[name]
        out[a - len(p):a] = p
    p = pad(k)
    if p:
        out[total - len(p):total] = p
    out[:58] = h
    for name, (a, b) in seg.items():
        if name == 'HEADER':
            continue
        out[a:a + len(blobs[name])] = blobs[name]

    # ground truth
    text_truth = dict(pairs)
    text_truth.update(dict(st_pairs))
    truth = {'text': text_truth, 'analysis': dict(an_pairs)}
    if spec['datatype'] in ('I', 'F', 'D'):
        truth['data'] = truth_events(spec)
    allf = dict(true_fields)
    allf.update({k: str(v) for k, v in true_h.items()})
    return bytes(out), {'seg': seg, 'truth': truth, 'fields': allf,
                        'len': total}


# ---------------------------------------------------------------------------
# reference loader
# ---------------------------------------------------------------------------

class LayoutError(Exception):
    """writer could not find a self-consistent layout (delimiter inside offset digits)"""


class RefReject(Exception):
    """The bytes are not a consistent, supported FCS file."""


class RefDontCare(Exception):
    """The documented rules do not single out one reading."""


def _int(s, what):
    try:
        return int(s)
    except (ValueError, TypeError):
        raise RefReject('%s is not an integer: %r' % (what, s))


def _segment(b, begin, end, what):
    if begin < 0 or end < begin - 1:
        raise RefReject('%s offsets reversed' % what)
    if end >= len(b):
        raise RefReject('%s extends past end of file' % what)
    return b[begin:end + 1].decode(ENC)


def _need(text, k):
    if k not in text:
        raise RefReject('required keyword %s missing' % k)
    return text[k]


def ref_load(b):
    """
    Returns dict(data, text, analysis, analysis_warned, warned) or raises
    RefReject / RefDontCare.
    """
    if len(b) < 58:
        raise RefReject('HEADER incomplete')
    version = b[0:10].decode(ENC).rstrip()
    hv = []
    for i in range(6):
        fld = b[10 + 8 * i:18 + 8 * i].decode(ENC)
        if i >= 4 and fld == ' ' * 8:
            hv.append(0)
        else:
            hv.append(_int(fld, 'HEADER field %d' % i))
    tb, te, hdb, hde, hab, hae = hv
    v3 = version in ('FCS3.0', 'FCS3.1')
    raw = _segment(b, tb, te, 'TEXT')
    if raw == '':
        raise RefReject('empty TEXT')
    delim = raw[0]
    cls, text = tokenize(raw, delim, False)
    if cls == 'err':
        raise RefReject('TEXT ill-formed: %s' % text)
    if cls == 'dc':
        raise RefDontCare('TEXT: %s' % text)
    warned = cls == 'tol'
    text = dict(text)
    if v3:
        sb = _int(_need(text, '$BEGINSTEXT'), '$BEGINSTEXT')
        se = _int(_need(text, '$ENDSTEXT'), '$ENDSTEXT')
        if sb and se:
            sraw = _segment(b, sb, se, 'STEXT')
            cls, stext = tokenize(sraw, delim, True)
            if cls == 'err':
                raise RefReject('STEXT ill-formed: %s' % stext)
            if cls == 'dc':
                raise RefDontCare('STEXT: %s' % stext)
            warned = warned or cls == 'tol'
            text.update(stext)
    if _need(text, '$MODE') != 'L':
        raise RefReject('unsupported $MODE')
    dt = _need(text, '$DATATYPE')
    if dt not in ('I', 'F', 'D'):
        raise RefReject('unsupported $DATATYPE')
    D = _int(_need(text, '$PAR'), '$PAR')
    if D < 0:
        raise RefReject('negative $PAR')
    widths = [_int(_need(text, '$P%dB' % p), '$PnB') for p in range(1, D + 1)]
    if dt == 'I':
        if any(w % 8 for w in widths) or any(w > 64 or w <= 0 for w in widths):
            raise RefReject('unsupported $PnB')
    elif any(w != (32 if dt == 'F' else 64) for w in widths):
        raise RefReject('$PnB inconsistent with $DATATYPE')
    bo = _need(text, '$BYTEORD')
    if bo in BYTEORDS_BIG:
        big = True
    elif bo in BYTEORDS_LITTLE:
        big = False
    else:
        raise RefReject('unsupported $BYTEORD')
    _int(_need(text, '$NEXTDATA'), '$NEXTDATA')
    # ANALYSIS (optional; failure to parse is tolerated with a warning)
    analysis = {}
    analysis_warned = False
    ab = ae = 0
    if hab and hae:
        ab, ae = hab, hae
    elif v3:
        ab = _int(_need(text, '$BEGINANALYSIS'), '$BEGINANALYSIS')
        ae = _int(_need(text, '$ENDANALYSIS'), '$ENDANALYSIS')
    analysis_dc = False
    if ab and ae:
        try:
            araw = _segment(b, ab, ae, 'ANALYSIS')
            cls, an = tokenize(araw, delim, True)
            if cls == 'err':
                raise RefReject(an)
            if cls == 'dc':
                analysis_dc = True
            else:
                analysis = an
                analysis_warned = cls == 'tol'
        except RefReject:
            analysis = {}
            analysis_warned = True
    ranges = []
    for p in range(1, D + 1):
        try:
            ranges.append(float(_need(text, '$P%dR' % p)))
        except ValueError:
            raise RefReject('$PnR not numeric')
    N = _int(_need(text, '$TOT'), '$TOT')
    if N < 0:
        raise RefReject('negative $TOT')
    if hdb and hde:
        dbeg, dend = hdb, hde
    elif v3:
        dbeg = _int(_need(text, '$BEGINDATA'), '$BEGINDATA')
        dend = _int(_need(text, '$ENDDATA'), '$ENDDATA')
        if not (dbeg and dend):
            raise RefReject('DATA segment not specified')
    else:
        raise RefReject('DATA segment not specified')
    rowbytes = sum(w // 8 for w in widths)
    nbytes = N * rowbytes
    extent = dend + 1 - dbeg
    if nbytes != extent and nbytes != extent - 1:
        raise RefReject('DATA size mismatch')
    if dbeg < 0 or dbeg + nbytes > len(b):
        raise RefReject('DATA extends past end of file')
    if N * max(D, 1) > 20000:
        # large files: the same decoding, column-wise with numpy (a per-value python loop would take minutes)
        raw = np.frombuffer(b, dtype=np.uint8, count=nbytes, offset=dbeg).reshape(N, rowbytes)
        if dt == 'I':
            mw = max(widths) if widths else 8
            up = 8
            while up < mw:
                up *= 2
            data = np.zeros((N, D), dtype='u%d' % (up // 8))
            off = 0
            for j, w in enumerate(widths):
                nb = w // 8
                r = ranges[j]
                if r <= 0 or r != r or math.isinf(r):
                    raise RefReject('$PnR not positive')
                acc = np.zeros(N, dtype=np.uint64)
                for k in range(nb):
                    shift = 8 * ((nb - 1 - k) if big else k)
                    acc |= raw[:, off + k].astype(np.uint64) << np.uint64(shift)
                bits = _mask_bits(math.ceil(r))
                acc &= np.uint64((1 << bits) - 1 if bits < 64 else 0xFFFFFFFFFFFFFFFF)
                data[:, j] = acc.astype(data.dtype)
                off += nb
        else:
            sz = 4 if dt == 'F' else 8
            data = np.frombuffer(b, dtype=('>' if big else '<') + 'f%d' % sz, count=N * D, offset=dbeg) \
                .reshape(N, D).astype('f%d' % sz)
    elif dt == 'I':
        mw = max(widths) if widths else 8
        up = 8
        while up < mw:
            up *= 2
        data = np.zeros((N, D), dtype='u%d' % (up // 8))
        pos = dbeg
        masks = []
        for r in ranges:
            if r <= 0 or r != r or math.isinf(r):
                raise RefReject('$PnR not positive')
            masks.append((1 << _mask_bits(math.ceil(r))) - 1)
        for i in range(N):
            for j, w in enumerate(widths):
                nb = w // 8
                v = int.from_bytes(b[pos:pos + nb], 'big' if big else 'little')
                data[i, j] = v & masks[j]
                pos += nb
    else:
        fmt = ('>' if big else '<') + ('f' if dt == 'F' else 'd')
        sz = 4 if dt == 'F' else 8
        data = np.zeros((N, D), dtype='f%d' % sz)
        pos = dbeg
        for i in range(N):
            for j in range(D):
                data[i, j] = struct.unpack(fmt, b[pos:pos + sz])[0]
                pos += sz
    return {'data': data, 'text': text, 'analysis': analysis,
            'analysis_warned': analysis_warned, 'analysis_dc': analysis_dc,
            'warned': warned, 'version': version}
