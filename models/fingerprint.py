"""Deep fingerprints of samples, containers and dictionaries.

Two flavours:
  * bit-exact (C13: nothing is serialised, so nothing may change at all);
  * numeric  (C20: NumPy itself normalises byte order when pickling, so dtype is
    compared by kind and width and values numerically).
"""
import datetime
import hashlib
import os

import numpy as np

STATE_FIELDS = ['infile', 'text', 'analysis', 'data_type', 'time_step',
                'acquisition_start_time', 'acquisition_end_time', 'channels',
                'amplification_type', 'detector_voltage', 'amplifier_gain',
                'channel_labels', 'range', 'resolution']
_CALL = {'amplification_type', 'detector_voltage', 'amplifier_gain', 'channel_labels',
         'range', 'resolution'}


def canon(x):
    """Canonical, hashable-free representation with exact floats and types."""
    if x is None or isinstance(x, (bool, str)):
        return x
    if isinstance(x, (np.bool_,)):
        return ('npbool', bool(x))
    if isinstance(x, np.integer):
        return ('npint', x.dtype.kind, x.dtype.itemsize, int(x))
    if isinstance(x, np.floating):
        return ('npfloat', x.dtype.itemsize, float(x).hex() if x == x else 'nan')
    if isinstance(x, int):
        return ('int', x)
    if isinstance(x, float):
        return ('float', x.hex() if x == x else 'nan')
    if isinstance(x, bytes):
        return ('bytes', hashlib.sha256(x).hexdigest())
    if isinstance(x, np.ndarray):
        return array_fp(x)
    if isinstance(x, dict):
        return ('dict', type(x).__name__,
                [(canon(k), canon(v)) for k, v in sorted(x.items(), key=lambda kv: repr(kv[0]))])
    if isinstance(x, tuple):
        return ('tuple', [canon(v) for v in x])
    if isinstance(x, list):
        return ('list', [canon(v) for v in x])
    if isinstance(x, (set, frozenset)):
        return ('set', sorted(repr(canon(v)) for v in x))
    if isinstance(x, (datetime.datetime, datetime.date, datetime.time)):
        return (type(x).__name__, x.isoformat())
    if isinstance(x, range):
        return ('range', x.start, x.stop, x.step)
    if isinstance(x, slice):
        return ('slice', canon(x.start), canon(x.stop), canon(x.step))
    return ('obj', type(x).__name__, repr(x)[:200])


def array_fp(a, exact=True):
    a = np.asarray(a).view(np.ndarray) if isinstance(a, np.ndarray) else np.asarray(a)
    if a.dtype == object:
        return ('objarray', a.shape, [canon(v) for v in a.ravel().tolist()])
    c = np.ascontiguousarray(a)
    if exact:
        return ('array', a.dtype.str, tuple(a.shape), hashlib.sha256(c.tobytes()).hexdigest()[:24])
    n = c.astype(c.dtype.newbyteorder('='))
    return ('array', a.dtype.kind, a.dtype.itemsize, tuple(a.shape),
            hashlib.sha256(n.tobytes()).hexdigest()[:24])


def get_field(d, name):
    """('ok', value) or ('exc', type name) for one of the fourteen state fields."""
    try:
        v = getattr(d, name)
        if name in _CALL:
            # by POSITION, not by name: with a repeated channel name the name-based default would report the
            # first of the equally named columns twice
            v = v(list(range(len(d.channels))))
        return ('ok', v)
    except Exception as e:
        return ('exc', type(e).__name__)


def sample_state(d, exact=True, with_acq=True):
    """dict field -> canonical value for an FCSData-like object."""
    st = {}
    arr = d.view(np.ndarray)
    st['values'] = array_fp(arr, exact=exact)
    for f in STATE_FIELDS:
        k, v = get_field(d, f)
        if f == 'infile' and k == 'ok' and isinstance(v, str):
            # the scratch directory differs from process to process: keep the digest replayable
            v = 'path:' + os.path.basename(v)
        elif f == 'infile' and k == 'ok' and v is not None and not isinstance(v, (int, float)):
            v = 'fileobj:' + type(v).__name__
        st[f] = (k, canon(v) if k == 'ok' else v)
    if with_acq:
        k, v = get_field(d, 'acquisition_time')
        st['acquisition_time'] = (k, canon(v) if k == 'ok' else v)
    st['class'] = type(d).__name__
    return st


def diff_fields(a, b):
    return [k for k in sorted(set(a) | set(b)) if a.get(k) != b.get(k)]


def fp_any(x, exact=True):
    """fingerprint of an arbitrary argument (sample, array, container, scalar)"""
    if hasattr(x, '_name_to_index') and isinstance(x, np.ndarray):
        return ('sample', sample_state(x, exact=exact, with_acq=False))
    if isinstance(x, np.ndarray):
        return array_fp(x, exact=exact)
    if isinstance(x, dict):
        return ('dict', type(x).__name__,
                [(canon(k), fp_any(v, exact)) for k, v in sorted(x.items(), key=lambda kv: repr(kv[0]))])
    if isinstance(x, list):
        return ('list', [fp_any(v, exact) for v in x])
    if isinstance(x, tuple):
        return ('tuple', [fp_any(v, exact) for v in x])
    return canon(x)


def digest(x):
    return hashlib.sha256(repr(x).encode()).hexdigest()[:24]
