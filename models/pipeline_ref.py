"""Hand composition of the documented Excel-UI steps with public library calls only (C10),
and the documented statistics / histogram definitions."""
import numpy as np


def hand_sample(F, path, inst, units, gate_fraction, mef_fxn):
    """The documented per-row recipe. `units`: {channel: units string or None}."""
    s = F.io.FCSData(path)
    sc = [inst['fsc'], inst['ssc']]
    s = F.transform.to_rfi(s, sc)
    rep = []
    for ch in inst['fl']:
        u = units.get(ch)
        if u is None:
            continue
        ul = u.strip().lower()
        if ul == 'channel':
            pass
        elif ul in ('rfi', 'a.u.', 'au'):
            s = F.transform.to_rfi(s, ch)
        elif ul == 'mef':
            s = F.transform.to_rfi(s, ch)
            s = mef_fxn(s, ch)
        else:
            raise ValueError('units not documented: %r' % u)
        rep.append(ch)
    g = F.gate.start_end(s, num_start=250, num_end=100)
    if g.data_type == 'I':
        g = F.gate.high_low(g, sc + rep)
    g = F.gate.density2d(g, channels=sc, gate_fraction=gate_fraction, xscale='logicle', yscale='logicle')
    return g, rep


STAT_COLS = [('Mean', 'mean'), ('Geom. Mean', 'gmean'), ('Median', 'median'), ('Mode', 'mode'), ('Std', 'std'),
             ('CV', 'cv'), ('Geom. Std', 'gstd'), ('Geom. CV', 'gcv'), ('IQR', 'iqr'), ('RCV', 'rcv')]
GEOM = {'gmean', 'gstd', 'gcv'}


def hand_stats(F, g, ch):
    """{column suffix: value}, whether a positive-only note is expected"""
    out = {}
    col = g[:, ch]
    nonpos = bool(np.any(np.asarray(col) <= 0))
    gp = g[np.asarray(g[:, ch]) > 0] if nonpos else g
    for suffix, fn in STAT_COLS:
        src = gp if fn in GEOM else g
        out[suffix] = getattr(F.stats, fn)(src, ch)
    return out, nonpos


def hand_hist(F, g, ch, units, max_bins=1024):
    """(bin_edges, counts) per the documentation: library bin edges on a doubled grid"""
    nbins = min(g.resolution(ch), max_bins)
    scales = ['linear'] if units == 'Channel' else (['linear', 'logicle'] if units.strip().lower() == 'channel' else ['logicle'])
    res = []
    for sc in scales:
        ext = g.hist_bins(ch, 2 * nbins, sc)
        edges = ext[::2]
        centers = ext[1::2]
        counts, _ = np.histogram(np.asarray(g[:, ch]), bins=edges)
        res.append((sc, np.asarray(edges), np.asarray(centers), counts))
    return res
