#!/venv/bin/python
"""Determinism proof on a larger sample (development evidence; the setup_cmd runs a small one).

For every claimed property the quick check is executed with a reduced run count under
  A: 16 workers, PYTHONHASHSEED=0
  B: 16 workers, PYTHONHASHSEED=0 (same again)
  C:  3 workers, PYTHONHASHSEED=12345 (kept by VERIF_KEEP_HASHSEED)
  D:  1 worker,  PYTHONHASHSEED=777, a different scratch base (/tmp instead of /dev/shm)
for several VERIF_SEED values, each in a fresh interpreter, and the batch digests (SHA-256 over
the per-run event-log digests in run-index order) are compared. Any difference is reported.
Writes selftest/determinism_report.json."""
import json
import os
import subprocess
import sys
import tempfile
import shutil

HERE = os.path.dirname(os.path.abspath(__file__))
VERIF = os.path.dirname(HERE)
RUNS = {'C01': 3000, 'C04': 600, 'C13': 400, 'C14': 300, 'C16': 300, 'C17': 2000, 'C20': 300, 'C11': 24, 'C10': 16, 'C15': 24}
CONFIGS = [('A', 16, '0', None), ('B', 16, '0', None), ('C', 3, '12345', None), ('D', 1, '777', '/tmp')]


def one(prop, seed, cfg, scratch):
    name, workers, hs, base = cfg
    ev = os.path.join(scratch, 'ev_%s_%s_%d' % (prop, name, seed))
    env = dict(os.environ, VERIF_SEED=str(seed), VERIF_RUNS=str(RUNS[prop]), VERIF_WORKERS=str(workers),
               PYTHONHASHSEED=hs, VERIF_KEEP_HASHSEED='1', VERIF_EVIDENCE_DIR=ev,
               VERIF_REPLAY_DIR=os.path.join(scratch, 'rp'), VERIF_BUDGET_S='3000')
    if base:
        env['VERIF_SCRATCH'] = base
    r = subprocess.run([os.path.join(VERIF, 'check'), prop, '--tier', 'quick'], cwd=VERIF, env=env,
                       capture_output=True, text=True, timeout=7200)
    try:
        cov = json.load(open(os.path.join(ev, prop + '.json')))['coverage']
        return {'rc': r.returncode, 'digest': cov['batch_digest'], 'runs': cov['simulated_runs']}
    except Exception:
        return {'rc': r.returncode, 'digest': None, 'tail': r.stdout[-400:] + r.stderr[-400:]}


def main():
    props = [a for a in sys.argv[1:] if a.startswith('C')] or sorted(RUNS)
    seeds = [1, 20260927, 424242]
    scratch = tempfile.mkdtemp(prefix='fcdet_')
    report = {}
    bad = 0
    try:
        for p in props:
            for s in seeds:
                res = {c[0]: one(p, s, c, scratch) for c in CONFIGS}
                ds = {k: v['digest'] for k, v in res.items()}
                same = len(set(ds.values())) == 1 and None not in ds.values()
                report['%s/%d' % (p, s)] = {'same': same, 'runs': res['A'].get('runs'), 'digests': ds,
                                            'rc': {k: v['rc'] for k, v in res.items()}}
                print('%s seed=%d runs=%s %s %s' % (p, s, res['A'].get('runs'), 'IDENTICAL' if same else 'DIFFERENT', '' if same else ds))
                sys.stdout.flush()
                bad += 0 if same else 1
                json.dump(report, open(os.path.join(HERE, 'determinism_report.json'), 'w'), indent=1)
    finally:
        shutil.rmtree(scratch, ignore_errors=True)
    print('%d configurations compared, %d differing' % (len(report), bad))
    return 1 if bad else 0


if __name__ == '__main__':
    sys.exit(main())
