#!/venv/bin/python
"""Generates selftest/mutants/<name>.diff from the table below (textual edits applied to a
scratch worktree of /repo HEAD). Each mutant breaks one property in a way that still passes
the repository's own test suite. Development evidence for sensitivity, not a registered check."""
import os
import shutil
import subprocess
import sys
import tempfile

HERE = os.path.dirname(os.path.abspath(__file__))

M = [
    # name, property, file, old, new
    ('c16_tolerance_two_bytes', 'C16', 'FlowCal/io.py',
     "            if (shape[0]*shape[1]*(num_bits//8)) != ((end+1)-begin) and \\\n                    (shape[0]*shape[1]*(num_bits//8)) != (end-begin):\n                raise ValueError(\"DATA size does not match expected array\"\n                    + \" size (array size =\"",
     "            if (shape[0]*shape[1]*(num_bits//8)) != ((end+1)-begin) and \\\n                    (shape[0]*shape[1]*(num_bits//8)) != (end-begin) and \\\n                    (shape[0]*shape[1]*(num_bits//8)) != (end-1-begin):\n                raise ValueError(\"DATA size does not match expected array\"\n                    + \" size (array size =\""),
    ('c16_no_short_read_check', 'C16', 'FlowCal/io.py',
     "    if len(raw) < (end+1)-begin:\n        raise ValueError(\"TEXT segment extends past the end of the file\"",
     "    if False and len(raw) < (end+1)-begin:\n        raise ValueError(\"TEXT segment extends past the end of the file\""),
    ('c16_fromfile_instead_of_memmap', 'C16', 'FlowCal/io.py',
     "        data = np.memmap(\n            buf,\n            dtype=dtype,\n            mode='r',\n            offset=begin,\n            shape=shape,\n            order='C')\n\n        # Cast memmap object to regular numpy array stored in memory (as\n        # opposed to being backed by disk)\n        data = np.array(data)\n    elif datatype == 'A':",
     "        buf.seek(begin)\n        data = np.frombuffer(buf.read(shape[0]*shape[1]*(num_bits//8)), dtype=dtype)\n        data = np.array(data[:(data.size//max(shape[1], 1))*shape[1]]).reshape((-1, shape[1]))\n    elif datatype == 'A':"),
    ('c01_le_shift_in_mixed_path', 'C01', 'FlowCal/io.py',
     "                    byteshift = (num_bytes-b-1) if big_endian else b\n",
     "                    byteshift = (num_bytes-b-1) if (big_endian or num_bytes == 3) else b\n"),
    ('c01_mask_one_bit_short', 'C01', 'FlowCal/io.py',
     "                bits_used = (int(np.ceil(param_ranges[col])) - 1).bit_length()\n",
     "                bits_used = int(param_ranges[col]).bit_length() - 1\n"),
    ('c01_double_always_big_endian', 'C01', 'FlowCal/io.py',
     "        dtype = np.dtype('{0}f{1}'.format('>' if big_endian else '<',\n                                          num_bits//8))",
     "        dtype = np.dtype('{0}f{1}'.format('>' if (big_endian or num_bits == 64) else '<',\n                                          num_bits//8))"),
    ('c01_text_only_offsets_one_past_dropped', 'C01', 'FlowCal/io.py',
     "            data_begin = int(self._text['$BEGINDATA'])\n            data_end = int(self._text['$ENDDATA'])\n            if data_begin and data_end:\n                self._data = read_fcs_data_segment(",
     "            data_begin = int(self._text['$BEGINDATA'])\n            data_end = int(self._text['$ENDDATA']) - (1 if self._header.version == 'FCS3.1' else 0)\n            if data_begin and data_end:\n                self._data = read_fcs_data_segment("),
    ('c14_escaped_run_count', 'C14', 'FlowCal/io.py',
     "                num_delim      = (num_empty_elements+1)//2\n",
     "                num_delim      = max(1, num_empty_elements//2)\n"),
    ('c14_analysis_fixed_slash', 'C14', 'FlowCal/io.py',
     "                    begin=self._header.analysis_begin,\n                    end=self._header.analysis_end,\n                    delim=delim,",
     "                    begin=self._header.analysis_begin,\n                    end=self._header.analysis_end,\n                    delim='/',"),
    ('c17_bdword_off_by_one', 'C17', 'FlowCal/io.py',
     "                                                             .format(12+i))",
     "                                                             .format(13+i))"),
    ('c17_range_upper_limit', 'C17', 'FlowCal/io.py',
     "            data_range.append([0., PnR - 1])\n",
     "            data_range.append([0., PnR - 1 if PnR > 256 else PnR])\n"),
    ('c17_sixtieths_as_hundredths', 'C17', 'FlowCal/io.py',
     "int(float(time_l[3])*1e6/60))",
     "int(float(time_l[3])*1e6/100))"),
    ('c17_date_ignored_for_end_time', 'C17', 'FlowCal/io.py',
     "            if acquisition_end_time is not None:\n                acquisition_end_time = datetime.datetime.combine(",
     "            if acquisition_end_time is not None and acquisition_start_time is not None:\n                acquisition_end_time = datetime.datetime.combine("),
    ('c20_setstate_forgets_resolution', 'C20', 'FlowCal/io.py',
     "        self._resolution             = fcsdata_state.resolution\n",
     "        self._resolution             = tuple(int(r[1] + 1) for r in fcsdata_state.range)\n"),
    ('c20_finalize_shares_range', 'C20', 'FlowCal/io.py',
     "            self._range = copy.deepcopy(obj._range)\n",
     "            self._range = list(obj._range)\n"),
    ('c20_file_eq_ignores_analysis', 'C20', 'FlowCal/io.py',
     "                and np.array_equal(self.data, other.data)\n                and self.analysis == other.analysis)",
     "                and np.array_equal(self.data, other.data)\n                and len(self.analysis) == len(other.analysis))"),
    ('c04_slice_branch_forgets_gain', 'C04', 'FlowCal/io.py',
     "                new_arr._amplifier_gain = \\\n                    new_arr._amplifier_gain[key_channel]\n",
     "                new_arr._amplifier_gain = \\\n                    new_arr._amplifier_gain[key_channel] if key_channel.step is None else \\\n                    new_arr._amplifier_gain[slice(key_channel.start, key_channel.stop)]\n"),
    ('c04_iterable_branch_sorted_voltage', 'C04', 'FlowCal/io.py',
     "                    [new_arr._detector_voltage[kc] for kc in key_channel])",
     "                    [new_arr._detector_voltage[kc] for kc in sorted(key_channel)])"),
    ('c13_to_mef_no_copy_for_floats', 'C13', 'FlowCal/transform.py',
     "    # Copy data array\n    data_t = data.copy().astype(np.float64)\n\n    # Iterate over channels\n    for chi, sc in zip(sc_channels, sc_list):",
     "    # Copy data array\n    data_t = data.astype(np.float64, copy=False)\n\n    # Iterate over channels\n    for chi, sc in zip(sc_channels, sc_list):"),
    ('c13_hist_bins_log_writes_range', 'C13', 'FlowCal/io.py',
     "            range_channel = list(self.range(channel))\n",
     "            range_channel = self.range(channel)\n"),
    ('c13_median_overwrite_input', 'C13', 'FlowCal/stats.py',
     "    return np.median(data_stats, axis=0)\n",
     "    return np.median(data_stats, axis=0, overwrite_input=True)\n"),
    ('c11_check_then_open', 'C11', 'FlowCal/excel_ui.py',
     "            try:\n                sample = FlowCal.io.FCSData(filename)\n            except IOError:\n                raise ExcelUIException(\"file \\\"{}\\\" not found\".format(\n                    sample_row['File Path']))",
     "            if not os.path.isfile(filename):\n                raise ExcelUIException(\"file \\\"{}\\\" not found\".format(\n                    sample_row['File Path']))\n            sample = FlowCal.io.FCSData(filename)"),
    ('c11_report_channels_leak_across_rows', 'C11', 'FlowCal/excel_ui.py',
     "    for sample_id, sample_row in samples_table.iterrows():\n        try:",
     "    report_channels = []\n    report_units = []\n    for sample_id, sample_row in samples_table.iterrows():\n        try:"),
    ('c11_stats_for_error_rows', 'C11', 'FlowCal/excel_ui.py',
     "            notes.append(\"ERROR: {}\".format(str(samples[row_id])))\n            n_events.append(np.nan)",
     "            notes.append(\"ERROR: {}\".format(str(samples[row_id])))\n            n_events.append(0)"),
    ('c10_trim_end_150', 'C10', 'FlowCal/excel_ui.py',
     "            sample_gated = FlowCal.gate.start_end(sample,\n                                                  num_start=250,\n                                                  num_end=100)",
     "            sample_gated = FlowCal.gate.start_end(sample,\n                                                  num_start=250,\n                                                  num_end=150)"),
    ('c10_high_low_without_reported_channels', 'C10', 'FlowCal/excel_ui.py',
     "                    sc_channels + report_channels)",
     "                    sc_channels + report_channels[:1])"),
    ('c10_hist_undoubled_grid', 'C10', 'FlowCal/excel_ui.py',
     "                bin_edges = bins_extended[::2]\n",
     "                bin_edges = bins_extended[::2] if scale == 'linear' else bins_extended[0:-1:2]\n"),
    ('c15_no_about_sheet_without_hist', 'C15', 'FlowCal/excel_ui.py',
     "    table_list.append(('About Analysis', about_table))\n",
     "    if hist_sheet or len(samples_table) > 1:\n        table_list.append(('About Analysis', about_table))\n"),
    ('c15_read_table_keeps_null_ids', 'C15', 'FlowCal/excel_ui.py',
     "        table = table[pd.notnull(table.index)]\n",
     "        table = table[pd.notnull(table.index)] if len(table) > 3 else table\n"),
    ('c15_sample_figure_name', 'C15', 'FlowCal/excel_ui.py',
     "                        \"{}.png\".format(sample_id))",
     "                        \"{}.png\".format(sample_row.name if len(report_channels) else 'sample'))"),
]

# reset lines that the report_channels mutant must also remove
EXTRA = {
    'c11_report_channels_leak_across_rows': [
        ("            report_channels = []\n            report_units = []\n            for fl_channel in fl_channels:",
         "            for fl_channel in fl_channels:")],
}


def main():
    out = os.path.join(HERE, 'mutants')
    os.makedirs(out, exist_ok=True)
    base = '/dev/shm' if os.path.isdir('/dev/shm') else tempfile.gettempdir()
    scratch = tempfile.mkdtemp(prefix='fcmk_', dir=base)
    wt = os.path.join(scratch, 'repo')
    subprocess.run(['git', '-C', '/repo', 'worktree', 'add', '--detach', wt, 'HEAD', '-q'], check=True)
    ok = True
    try:
        for name, prop, f, old, new in M:
            p = os.path.join(wt, f)
            s = open(p).read()
            if s.count(old) != 1:
                print('MUTANT %s: anchor found %d times' % (name, s.count(old)))
                ok = False
                continue
            s = s.replace(old, new)
            for o2, n2 in EXTRA.get(name, []):
                if s.count(o2) != 1:
                    print('MUTANT %s: extra anchor found %d times' % (name, s.count(o2)))
                    ok = False
                s = s.replace(o2, n2)
            open(p, 'w').write(s)
            d = subprocess.run(['git', '-C', wt, 'diff'], capture_output=True, text=True).stdout
            open(os.path.join(out, '%s.%s.diff' % (prop, name)), 'w').write(d)
            subprocess.run(['git', '-C', wt, 'checkout', '--', '.'], check=True)
        print('%d mutants written' % len(M))
    finally:
        subprocess.run(['git', '-C', '/repo', 'worktree', 'remove', '--force', wt], capture_output=True)
        shutil.rmtree(scratch, ignore_errors=True)
    return 0 if ok else 1


if __name__ == '__main__':
    sys.exit(main())
