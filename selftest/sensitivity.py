#!/venv/bin/python
"""Sensitivity self-test (development evidence, not a registered check).

For every patch in selftest/mutants/ (and, with --seeded, every /verif/seeded/<id>/patch.diff):
apply it to a scratch worktree of /repo HEAD outside /repo and /verif, run the repository's own
pinned test suite there (the stable-pass set must stay green, otherwise the mutant is not a
valid one), run the quick check of the property it targets with VERIF_REPO pointing at the
scratch tree, expect exit 1 with a VIOLATION line, then delete the tree.
Writes selftest/sensitivity_report.json."""
import glob
import json
import os
import shutil
import subprocess
import sys
import tempfile
import xml.etree.ElementTree as ET

HERE = os.path.dirname(os.path.abspath(__file__))
VERIF = os.path.dirname(HERE)


def suite_ok(wt, scratch):
    """stable_pass tests of BASELINE.json still pass in the patched tree"""
    b = json.load(open('/root/.vp/BASELINE.json'))
    junit = os.path.join(scratch, 'junit.xml')
    env = dict(os.environ, PYTHONPATH=wt)
    subprocess.run(['/venv/bin/python', '-m', 'pytest', '-q', '-p', 'no:cacheprovider', '--timeout=900',
                    '--continue-on-collection-errors', '--junitxml=' + junit],
                   cwd=wt, env=env, capture_output=True, text=True, timeout=3600)
    res = {}
    for tc in ET.parse(junit).iter('testcase'):
        res[tc.get('classname') + '::' + tc.get('name')] = not any(c.tag in ('failure', 'error', 'skipped') for c in tc)
    broken = [n for n in b['stable_pass'] if not res.get(n)]
    return broken


def suite_only(patch):
    """the repository's own suite on the patched tree, in its own scratch worktree (runs beside the checks)"""
    base = '/dev/shm' if os.path.isdir('/dev/shm') else tempfile.gettempdir()
    scratch = tempfile.mkdtemp(prefix='fcsuite_', dir=base)
    wt = os.path.join(scratch, 'repo')
    try:
        subprocess.run(['git', '-C', '/repo', 'worktree', 'add', '--detach', wt, 'HEAD', '-q'], check=True)
        r = subprocess.run(['git', '-C', wt, 'apply', patch], capture_output=True, text=True)
        if r.returncode != 0:
            return ['patch does not apply']
        return suite_ok(wt, scratch)
    except Exception as e:
        return ['suite run failed: %s' % e]
    finally:
        subprocess.run(['git', '-C', '/repo', 'worktree', 'remove', '--force', wt], capture_output=True)
        shutil.rmtree(scratch, ignore_errors=True)


def run_one(patch, props, tier='quick', check_suite=True):
    base = '/dev/shm' if os.path.isdir('/dev/shm') else tempfile.gettempdir()
    scratch = tempfile.mkdtemp(prefix='fcsens_', dir=base)
    wt = os.path.join(scratch, 'repo')
    rec = {'patch': os.path.relpath(patch, VERIF), 'checks': {}}
    try:
        subprocess.run(['git', '-C', '/repo', 'worktree', 'add', '--detach', wt, 'HEAD', '-q'], check=True)
        r = subprocess.run(['git', '-C', wt, 'apply', patch], capture_output=True, text=True)
        if r.returncode != 0:
            rec['error'] = 'patch does not apply: ' + r.stderr[:300]
            return rec
        if check_suite:
            rec['suite_broken'] = suite_ok(wt, scratch)
        # one verified replay is what this self-test asks for; minimisation quality is not its subject
        env = dict(os.environ, VERIF_REPO=wt, VERIF_EVIDENCE_DIR=os.path.join(scratch, 'ev'),
                   VERIF_REPLAY_DIR=os.path.join(scratch, 'rp'), VERIF_SHRINK_S='25', VERIF_MAX_REPORT='1')
        for p in props:
            r = subprocess.run([os.path.join(VERIF, 'check'), p, '--tier', tier], cwd=VERIF, env=env,
                               capture_output=True, text=True, timeout=7200)
            viol = [l for l in r.stdout.splitlines() if l.startswith('  violation')]
            rec['checks'][p] = {'rc': r.returncode, 'first_violation': viol[0][:300] if viol else None,
                                'wall': [l for l in r.stdout.splitlines() if l.startswith(p + ':')][-1:]}
    finally:
        subprocess.run(['git', '-C', '/repo', 'worktree', 'remove', '--force', wt], capture_output=True)
        shutil.rmtree(scratch, ignore_errors=True)
    return rec


def main():
    args = sys.argv[1:]
    only = [a for i, a in enumerate(args) if not a.startswith('--') and not (i and args[i - 1] == '--keep')
            and not (i > 1 and args[i - 2] == '--keep')]
    jobs = []
    for f in sorted(glob.glob(os.path.join(HERE, 'mutants', '*.diff'))):
        prop = os.path.basename(f).split('.')[0]
        jobs.append((f, [prop]))
    if '--seeded' in args:
        for d in sorted(glob.glob(os.path.join(VERIF, 'seeded', '*'))):
            meta = json.load(open(os.path.join(d, 'meta.json')))
            jobs.append((os.path.join(d, 'patch.diff'), [meta['property']]))
    if only:
        jobs = [j for j in jobs if any(o in j[0] for o in only)]
    report = []
    missed = 0
    if '--keep' in args:
        # --keep FILE PROPS: records of an earlier (interrupted) run for the checks named in PROPS are taken over
        k = args.index('--keep')
        keep_props = set(args[k + 2].split(','))
        for rec in json.load(open(args[k + 1])):
            if set(rec.get('checks', {})) and set(rec['checks']) <= keep_props and 'suite_broken' in rec:
                report.append(rec)
                missed += sum(1 for c in rec['checks'].values() if c['rc'] != 1)
        done = {r['patch'] for r in report}
        jobs = [j for j in jobs if os.path.relpath(j[0], VERIF) not in done]
        print('kept %d records, %d patches to run' % (len(report), len(jobs)))
    # the suite runs (one core each) proceed in a small pool beside the checks (which use all cores, one at a time)
    import concurrent.futures as cf
    pool = cf.ThreadPoolExecutor(max_workers=3)
    suites = {f: pool.submit(suite_only, f) for f, _ in jobs} if '--no-suite' not in args else {}
    for f, props in jobs:
        rec = run_one(f, props, check_suite=False)
        if f in suites:
            rec['suite_broken'] = suites[f].result()
        report.append(rec)
        for p, c in rec.get('checks', {}).items():
            ok = c['rc'] == 1
            missed += 0 if ok else 1
            print('%-60s %s rc=%d %s %s' % (rec['patch'], p, c['rc'], 'CAUGHT' if ok else 'MISSED',
                                             ('suite broken: %d' % len(rec['suite_broken'])) if rec.get('suite_broken') else ''))
            if c['first_violation']:
                print('      ' + c['first_violation'][:220])
        if 'error' in rec:
            print(rec['patch'], rec['error'])
        sys.stdout.flush()
        with open(os.path.join(HERE, 'sensitivity_report.json'), 'w') as fh:
            json.dump(report, fh, indent=1)
    subprocess.run(['git', '-C', '/repo', 'worktree', 'prune'], capture_output=True)
    print('%d/%d caught' % (len(report) - missed, len(report)))
    return 0 if missed == 0 else 1


if __name__ == '__main__':
    sys.exit(main())
