#!/venv/bin/python
"""Regenerates MANIFEST.json from the table below (keeps it valid at all times)."""
import json, os, subprocess, sys
HERE = os.path.dirname(os.path.dirname(os.path.abspath(__file__)))
NA = {
 "C02":"bead calibration accuracy: statistical accuracy of clustering+fit on an in-memory sample for a fixed seed; no I/O, clock, fault, schedule or multi-step history to simulate (pure function of its input)",
 "C03":"RFI conversion law: array-to-array arithmetic per channel; pure function of in-memory arguments, nothing to schedule or fault",
 "C05":"density gate invariants: inequalities over one pure call on an in-memory array; input sweep, not a simulation target",
 "C06":"MEF curve pairing: argument-pairing logic of one pure call; no fault, clock or history dimension",
 "C07":"range/limit commutation: bitwise agreement of two floating-point evaluation paths; a parameter sweep, not a simulation",
 "C08":"gates equal predicates: pure mask computations on in-memory arrays",
 "C09":"bead-model fit recovery: numerical optimiser on in-memory pairs; no nondeterminism or fault surface",
 "C12":"statistics equal definitions: pure reductions over arrays (their crashes on converted samples are still found through the C15/C10 end-to-end simulation)",
 "C18":"logicle scale mathematics: closed-form/root-finding on scalars; pure function",
 "C19":"histogram bin edges: pure function of range, resolution, n and scale (its side effect on stored state is covered by the C13 history machine)",
}
CHECKS = {
 "C01": dict(cat="exploration", ref="DESIGN.md 3 (C01)", technique="seeded storage-configuration simulation (fault-free arm) vs reference writer/loader",
   text="seeded exploration of the storage-layout configuration space: every run writes one generated FCS file (version x datatype x byte-order spelling x widths x range class x HEADER/TEXT-only offsets x end convention x segment order x padding x 0..40 events; rarely 10..100 parameters, a 10 MB pad, or a 1-17 MiB DATA segment) to the simulated disk and loads it through the real reader by path or through an open file object; strict equality with writer ground truth and with an independent reference loader; refused layouts must raise; 30% of runs continue with a storage history (overwrite the file in place and re-read the earlier sample; modify the sample in memory, boot again on the same inode). Evidence bounded by the run count; not a proof.",
   note="trusted: models/fcs_ref.py (independent encoder/decoder), NumPy; NaN payloads not generated; non-power-of-two ranges generated below 2^52 (the reader parses $PnR through a float); large files skip the pure-python reference decoding"),
 "C16": dict(cat="fault_enumeration", ref="DESIGN.md 3 (C16)", technique="deterministic simulation: crash-during-copy at every byte offset + structural field faults on a simulated disk, oracle = ground truth or reference loader",
   text="per generated file, every crash point of an interrupted copy (exhaustive 0..len) and every listed structural field x {smaller (incl. -2), larger (incl. +2), +1, -1}, alone and composed (up to two field faults plus a truncation), over seeded layouts incl. TEXT-like segments last in file, plus a rare arm that interrupts the copy of a 1-17 MiB file at a handful of points; outcome must be an exception, the intact content, or the reference reading of self-consistent bytes.",
   note="trusted: reference loader implements the documented rules (incl. one-past-end DATA convention and the tolerated TEXT ending); garbage blocks of correct length, short reads, EIO not modelled"),
 "C14": dict(cat="exploration", ref="DESIGN.md 3 (C14)", technique="seeded stored-byte fault simulation + bounded exhaustive walk, differential vs left-to-right reference tokenizer",
   text="all strings over {delimiter,a,b} up to length 9 (quick) / 14 (thorough) for primary and supplemental segments, plus seeded dictionaries over a rich alphabet and every printable delimiter, intact and with 1-3 stored-byte faults, read through read_fcs_text_segment and (inside generated files on the simulated disk) through FCSFile; outcome judged against a three-valued reference tokenizer.",
   note="trusted: models/fcs_ref.tokenize; three don't-care classes (leading-delimiter-run-only segment, warned ending with >= 4 trailing delimiters, duplicated keyword)"),
 "C17": dict(cat="fault_enumeration", ref="DESIGN.md 3 (C17)", technique="deterministic simulation of stored-field faults (absent / well-formed / ill-formed optional keywords) vs reference metadata derivation",
   text="presence x well-formed-format x ill-formedness lattice of every optional keyword named by the property, time channel absent / any case / duplicated, all versions and data types; file written to the simulated disk, loaded through FCSData, every attribute and accessor compared with an independent derivation, the time attributes once more after the duration was computed (on the object and on views / copies made afterwards); loading and accessors must not raise.",
   note="trusted: models/meta_ref.py; second fractions compared to +-1 us; ambiguous combinations accept both readings (listed in evidence assumptions)"),
 "C20": dict(cat="exploration", ref="DESIGN.md 3 (C20)", technique="deterministic simulation of crash/restart with only serialised state surviving (pickle bytes on the simulated disk), lineage refinement + storage history for file equality",
   text="two lineages from one generated file receive the same seeded analysis ops (<= 3 of slice channels/events, to RFI, to MEF, four gates); one lineage is restarted at seeded points by copy / copy.copy / deepcopy / view / pickle protocols 0..5 through the simulated disk (a fraction restored in a fresh interpreter); fingerprints (values, dtype kind+width, fourteen state fields, acquisition_time) compared after every step, clones mutated to prove independence; load/load/rewrite/load history for FCSFile == / != / hash.",
   note="trusted: models/fingerprint.py; dtype compared by kind and width only (NumPy normalises byte order on pickling); NaN-free float files for the equality clause"),
 "C04": dict(cat="exploration", ref="DESIGN.md 3 (C04)", technique="seeded operation histories over aliased handles vs NumPy reference model (bounded exhaustive key walks + random chains)",
   text="every canonical (row key, column key) pair of the grammar on small loaded samples exhaustively (and, thorough, every pair of successive keys), plus seeded chains of up to 4 getitem/setitem ops over a pool of aliased handles (some re-using the key object of an earlier expression); values, dtype and the seven per-channel attributes of every live handle compared with a NumPy reference model after every op; invalid keys must be refused, other forms refused or aligned.",
   note="trusted: models/index_ref.py and NumPy's own indexing; no fault dimension; two-part keys on 1-D samples and re-indexed row samples are checked for values only"),
 "C13": dict(cat="exploration", ref="DESIGN.md 3 (C13)", technique="seeded operation histories with bit-exact state fingerprints, cross-mutation of results and inputs, and never-used-twin comparison (history independence)",
   text="histories of 2..8 calls over the public surface of io, transform, gate, stats, mef, plot and FCSData (enumerated at run time) on a pool of loaded / converted / transformed / sliced samples and plain arrays, with caller-side in-place edits as history steps; every argument (incl. caller-owned lists and dicts and their element identities) and every pool object fingerprinted bit-exactly before and after each call, also when it raises; sample results cross-mutated with inputs; every answer compared with a freshly built twin (edits replayed); exhaustive ordered-pair and query-edit-query walks over 88 canonical calls.",
   note="trusted: models/fingerprint.py; buffer file position not fingerprinted; lists handed out by accessors may alias stored state (the property speaks about samples)"),
 "C11": dict(cat="fault_enumeration", ref="DESIGN.md 3 (C11)", technique="deterministic simulation of fault sequences over a batch (row faults incl. ENOENT injected at the open seam), healthy rows refined against their single-row runs",
   text="generated experiments over synthetic FCS files on the simulated disk; each bead / cell-sample row carries no fault or one documented fault kind (file not found in six storage spellings incl. ENOENT/EACCES injected at the open seam, < 400 events, gate fraction out of range, unrecognised units, calibration unavailable, no standard curve, other instrument / amplification / voltage, unequal MEF counts) at seeded positions and orders; no exception may escape, keys follow the table, faulted rows hold an error and get an ERROR: note with empty statistics, every other row is bit-identical to its single-row run (executed in its own child process forked before the batch, on rebuilt tables and copies of the calibration functions); a second pass re-processes the previous output table after a file disappeared; thorough enumerates every ordered two-row fault assignment.",
   note="trusted: models/fingerprint.py; bead clustering is the real GMM with the global RNG re-seeded per row by the simulator (~70%) or a label-oracle stub (~30%); rows that fail for an undocumented reason are only required to fail identically alone"),
 "C10": dict(cat="exploration", ref="DESIGN.md 3 (C10)", technique="seeded end-to-end refinement of the batch orchestration against an executable hand composition of the documented steps (fault-free arm of the batch simulator)",
   text="generated experiments (three in four fault-free, one in four with documented row faults next to the compared rows; units in all documented spellings, integer and float data, 0..2 bead rows); every returned sample bit-identical to the hand composition of the documented steps, computed per row in a child process forked before the workflow runs, with copies of the calibration functions the real bead processing returned; every statistics column equals FlowCal.stats on that sample (geometric ones on positive events, note iff needed); every histogram row equals np.histogram over the library bin edges and sums to the events inside them.",
   note="trusted: models/pipeline_ref.py (public library calls only); either histogram scale accepted for letter-case variants of 'channel'; calibration accuracy itself (C02) not claimed"),
 "C15": dict(cat="exploration", ref="DESIGN.md 3 (C15)", technique="deterministic end-to-end simulation of excel_ui.run over simulated storage, clock and RNG with an I/O-history oracle and bounded liveness; seeded write/read round trips",
   text="generated well-formed workbooks (written with openpyxl) and FCS files on the simulated disk, processed by the real excel_ui.run under every option tuple (plots, histogram sheet, explicit/default output, absolute/relative input path, input names with several dots, pre-existing plot folders, a second run) with the open seams, the simulated clock, the owned RNG and a recorded savefig; run must return within the liveness bound, write exactly the documented files (valid PNG/XLSX), leave inputs untouched, preserve every input row and column in order, add the documented result columns, and stamp the About sheet with what the simulated clock returned; plus seeded tables through write_workbook -> read_table; thorough also runs the shipped example workbook.",
   note="trusted: openpyxl for writing inputs and reading outputs; None/NaN/empty are one cell value; three known findings about pandas' reader conversions in read_table are listed in known_findings.json; write-side crashes not modelled"),
}
def main():
    checks = []
    for pid in sorted(CHECKS):
        c = CHECKS[pid]
        if not os.path.exists(os.path.join(HERE, 'machines')):
            continue
        checks.append({
            "property_id": pid,
            "quick_cmd": "./check %s --tier quick" % pid,
            "thorough_cmd": "./check %s --tier thorough" % pid,
            "evidence_file": "/verif/evidence/%s.json" % pid,
            "replay_cmd_template": "./check %s --replay {path}" % pid,
            "engine": "flowcal-dst",
            "level_claimed": {"category": c["cat"], "text": c["text"], "design_ref": c["ref"]},
            "level_note": c["note"],
            "technique": c["technique"],
        })
    na = dict(NA)
    for l in open(os.path.join(HERE, 'properties.jsonl')):
        pid = json.loads(l)['id']
        if pid not in CHECKS and pid not in na:
            na[pid] = 'not claimed at this commit: simulation machine planned in DESIGN.md section 3 but not built yet'
    m = {"version": 1,
         "setup_cmd": "/venv/bin/python -m sim.selfcheck",
         "hooks": {"guard": "FLOWCAL_VERIF",
                   "enable": "no hooks: every seam is a module attribute replaced from outside (FlowCal.io.open, FlowCal.excel_ui.open/time, numpy global RNG); guard declared but unused",
                   "baseline_off_cmd": "cd /repo && /venv/bin/python -m pytest -ra -q -p no:cacheprovider --timeout=900 --continue-on-collection-errors",
                   "source_commits": [], "add_only": True},
         "engines": [{"name": "flowcal-dst", "path": "/verif/sim", "serves_properties": sorted(CHECKS),
                      "kind_free_text": "purpose-built deterministic simulator: one PRNG per run from VERIF_SEED, simulated disk/clock/RNG seams, op+fault lists as replay files, ddmin minimisation, 16-process fork pool"}],
         "checks": checks,
         "notes": "exit 0 held / 1 VIOLATION (replay verified in fresh interpreter) / 2 harness error. VERIF_SEED, VERIF_TIER, VERIF_BUDGET_S, VERIF_RUNS, VERIF_WORKERS honoured. Fixes to /repo are listed in known_findings.json ('fixed').",
         "not_applicable": [{"property_id": k, "reason": v} for k, v in sorted(na.items())]}
    json.dump(m, open(os.path.join(HERE, 'MANIFEST.json'), 'w'), indent=1)
    print('MANIFEST.json written with %d checks' % len(checks))
main()
