#!/venv/bin/python
"""tools/trypatch.py <patch.diff> <prop> [<prop>...] [--tier quick] [--demo demo.py]
Applies a patch to a scratch worktree of /repo (outside /repo and /verif), runs the given
checks against it (VERIF_REPO), prints exit codes / VIOLATION lines, removes the worktree.
Evidence and replays of these runs go to a scratch directory, never to /verif/evidence."""
import os, shutil, subprocess, sys, tempfile
VERIF = os.path.dirname(os.path.dirname(os.path.abspath(__file__)))
args = sys.argv[1:]
tier = 'quick'
demo = None
keep_replays = None
if '--tier' in args:
    i = args.index('--tier'); tier = args[i + 1]; del args[i:i + 2]
if '--demo' in args:
    i = args.index('--demo'); demo = os.path.abspath(args[i + 1]); del args[i:i + 2]
if '--replays' in args:
    i = args.index('--replays'); keep_replays = os.path.abspath(args[i + 1]); del args[i:i + 2]
patch = os.path.abspath(args[0])
props = args[1:]
base = '/dev/shm' if os.path.isdir('/dev/shm') else tempfile.gettempdir()
scratch = tempfile.mkdtemp(prefix='fcmut_', dir=base)
wt = os.path.join(scratch, 'repo')
rc_all = {}
try:
    subprocess.run(['git', '-C', '/repo', 'worktree', 'add', '--detach', wt, 'HEAD', '-q'], check=True)
    r = subprocess.run(['git', '-C', wt, 'apply', patch], capture_output=True, text=True)
    if r.returncode != 0:
        print('PATCH DOES NOT APPLY:', r.stderr[:500]); sys.exit(3)
    env = dict(os.environ, VERIF_REPO=wt, VERIF_EVIDENCE_DIR=os.path.join(scratch, 'ev'),
               VERIF_REPLAY_DIR=keep_replays or os.path.join(scratch, 'rp'), PYTHONPATH=wt)
    if demo:
        d = subprocess.run(['/venv/bin/python', demo], cwd=wt, env=env, capture_output=True, text=True, timeout=1800)
        print('demo on patched tree: rc=%d %s' % (d.returncode, (d.stdout + d.stderr).strip().splitlines()[-1:] ))
    for p in props:
        r = subprocess.run([os.path.join(VERIF, 'check'), p, '--tier', tier], cwd=VERIF, env=env, capture_output=True, text=True, timeout=7200)
        lines = [l for l in r.stdout.splitlines() if l.startswith(('VIOLATION', 'KNOWN', 'HARNESS', '  violation')) or l.startswith(p + ':')]
        print('%s rc=%d' % (p, r.returncode))
        for l in lines[:8]:
            print('   ' + l[:400])
        if r.returncode == 2:
            print(r.stdout[-1500:], r.stderr[-1500:])
        rc_all[p] = r.returncode
finally:
    subprocess.run(['git', '-C', '/repo', 'worktree', 'remove', '--force', wt], capture_output=True)
    shutil.rmtree(scratch, ignore_errors=True)
    subprocess.run(['git', '-C', '/repo', 'worktree', 'prune'], capture_output=True)
print('RESULT', ' '.join('%s=%d' % kv for kv in rc_all.items()))
