#!/bin/bash
# runs the repository's pinned test suite and compares with BASELINE.json stable_pass
cd /repo && /venv/bin/python -m pytest -q -p no:cacheprovider --timeout=900 --continue-on-collection-errors --junitxml=/tmp/verif_junit.xml >/tmp/verif_pytest.log 2>&1
/venv/bin/python - <<'PY'
import json, xml.etree.ElementTree as ET
b=json.load(open('/root/.vp/BASELINE.json'))
t=ET.parse('/tmp/verif_junit.xml')
res={}
for tc in t.iter('testcase'):
    name=tc.get('classname')+'::'+tc.get('name')
    ok=not any(c.tag in ('failure','error','skipped') for c in tc)
    res[name]=ok
missing=[n for n in b['stable_pass'] if not res.get(n)]
newpass=[n for n in b['always_fail'] if res.get(n)]
print('stable_pass still passing: %d/%d; broken: %s; always_fail now passing: %d %s'%(len(b['stable_pass'])-len(missing),len(b['stable_pass']),missing[:10],len(newpass),newpass[:6]))
import sys; sys.exit(1 if missing else 0)
PY
