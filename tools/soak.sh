#!/bin/bash
# tools/soak.sh [tier] [first_seed] [n_seeds] [props...]: runs the registered checks under many VERIF_SEED values.
# Evidence and replays go to a scratch directory (never to /verif/evidence). Prints one line per check run and a
# summary; any rc != 0 is listed again at the end.
tier=${1:-quick}; first=${2:-1}; n=${3:-10}; shift 3
props=${@:-C01 C04 C13 C14 C16 C17 C20 C15 C11 C10}
here=$(cd "$(dirname "$0")/.." && pwd)
out=$(mktemp -d /tmp/fcsoak_XXXXXX)
export VERIF_EVIDENCE_DIR=$out/ev VERIF_REPLAY_DIR=$here/replays
bad=0
for s in $(seq $first $((first+n-1))); do
  for p in $props; do
    VERIF_SEED=$s VERIF_TIER=$tier timeout 7200 $here/check $p --tier $tier > $out/$p.$s.log 2>&1
    rc=$?
    echo "seed=$s $p rc=$rc $(grep "^$p:" $out/$p.$s.log | tail -1)"
    if [ $rc -ne 0 ]; then bad=$((bad+1)); grep -E "VIOLATION|violation|HARNESS" $out/$p.$s.log | head -5; cp $out/$p.$s.log $here/replays/soak_$p.$s.log 2>/dev/null; fi
  done
done
echo "soak finished: $bad non-zero exits"
rm -rf $out
