#!/opt/veriftools/pyvenv/bin/python
import json, jsonschema, glob, sys
ok = True
jsonschema.validate(json.load(open('/verif/MANIFEST.json')), json.load(open('/root/.vp/MANIFEST.schema.json')))
es = json.load(open('/root/.vp/EVIDENCE.schema.json'))
m = json.load(open('/verif/MANIFEST.json'))
for c in m['checks']:
    try:
        e = json.load(open(c['evidence_file']))
        jsonschema.validate(e, es)
        assert e['level'] == c['level_claimed']['category'], 'level mismatch'
        print(c['property_id'], 'evidence ok', e['tier'], e['coverage']['evaluations'], e['coverage']['distinct_nontrivial'], e['wall_s'])
    except Exception as ex:
        ok = False
        print(c['property_id'], 'EVIDENCE PROBLEM', str(ex)[:300])
props = {json.loads(l)['id'] for l in open('/verif/properties.jsonl')}
claimed = {c['property_id'] for c in m['checks']}
na = {n['property_id'] for n in m.get('not_applicable', [])}
print('claimed', sorted(claimed), 'na', sorted(na), 'unaccounted', sorted(props - claimed - na))
sys.exit(0 if ok else 1)
