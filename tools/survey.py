#!/venv/bin/python
"""debug helper: tools/survey.py <prop> <n> [tier] -- distinct violation sites over n runs, in-process, no shrinking"""
import collections, os, sys
sys.path.insert(0, os.path.dirname(os.path.dirname(os.path.abspath(__file__))))
from sim import env
env.reexec_pinned()
env.worker_setup()
from sim.prng import Rng, run_seed, DEFAULT_SEED
import machines
prop, n = sys.argv[1], int(sys.argv[2])
tier = sys.argv[3] if len(sys.argv) > 3 else 'quick'
start = int(os.environ.get('START', 0))
seed = int(os.environ.get('VERIF_SEED', DEFAULT_SEED))
m = machines.get(prop)
seen = collections.OrderedDict()
for i in range(start, start + n):
    case = m.generate(Rng(run_seed(prop, seed, i)), tier, i)
    out = m.execute(case)
    for v in out['violations']:
        k = (v['clause'], v['site'])
        if k not in seen:
            seen[k] = [0, i, v['detail']]
        seen[k][0] += 1
for k, (c, i, d) in seen.items():
    print('%4d first@%d %s @ %s :: %s' % (c, i, k[0], k[1], str(d)[:300]))
print('%d distinct sites' % len(seen))
