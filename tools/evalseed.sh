#!/bin/bash
# tools/evalseed.sh <prop> : for each /tmp/seed_out/<prop>/<k>: demo on clean HEAD worktree (must PASS), then patched (must FAIL) + check
p=$1
for d in ${SEEDROOT:-/tmp/seed_out}/$p/[0-9]; do
  k=$(basename $d)
  [ -f $d/patch.diff ] || continue
  echo "=== $p/$k"
  (cd /repo && PYTHONPATH=/repo timeout 900 /venv/bin/python $d/demo.py >/tmp/demo_clean.log 2>&1; echo "demo on clean /repo: rc=$? $(tail -1 /tmp/demo_clean.log | cut -c1-160)")
  /verif/tools/trypatch.py $d/patch.diff $p --demo $d/demo.py 2>&1 | grep -v "^   VIOLATION" | cut -c1-330 | tail -7
done
