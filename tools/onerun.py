#!/venv/bin/python
"""debug helper: tools/onerun.py <prop> <index> [tier] -- executes one generated run in-process"""
import json, os, sys
sys.path.insert(0, os.path.dirname(os.path.dirname(os.path.abspath(__file__))))
from sim import env
env.reexec_pinned()
env.worker_setup()
from sim.prng import Rng, run_seed, DEFAULT_SEED
import machines
prop, idx = sys.argv[1], int(sys.argv[2])
tier = sys.argv[3] if len(sys.argv) > 3 else 'quick'
seed = int(os.environ.get('VERIF_SEED', DEFAULT_SEED))
m = machines.get(prop)
case = m.generate(Rng(run_seed(prop, seed, idx)), tier, idx)
out = m.execute(case)
print(json.dumps(m.summarise(case), default=str)[:3000])
print('digest', out['digest'], 'evals', out['evals'])
for v in out['violations']:
    print('VIOL', v)
print('faults', out.get('faults'), 'probes', out.get('probes'))
