#!/bin/bash
# tools/thorough_all.sh [props...]: runs the thorough tier of every registered check once (evidence and replays redirected
# to scratch) and prints one summary line per check. Development evidence; not a registered command.
props=${@:-C01 C04 C13 C14 C16 C17 C20 C15 C11 C10}
here=$(cd "$(dirname "$0")/.." && pwd)
out=$(mktemp -d /tmp/fcthor_XXXXXX)
export VERIF_EVIDENCE_DIR=$out/ev VERIF_REPLAY_DIR=$here/replays
for p in $props; do
  timeout 3600 $here/check $p --tier thorough > $out/$p.log 2>&1
  rc=$?
  echo "$p rc=$rc $(grep "^$p:" $out/$p.log | tail -1)"
  if [ $rc -ne 0 ]; then grep -E "VIOLATION|violation|HARNESS" $out/$p.log | head -8; cp $out/$p.log $here/replays/thorough_$p.log 2>/dev/null; fi
  python3 - <<PY 2>/dev/null
import json
try:
    c=json.load(open("$out/ev/$p.json"))["coverage"]
    print("   evals=%s distinct=%s runs/h=%s faults=%s probes=%s" % (c["evaluations"], c["distinct_nontrivial"], c["runs_per_hour"], sum(c["faults_fired"].values()), dict(list(c["probes"].items())[:6])))
except Exception as e: print("   (no evidence)", e)
PY
done
rm -rf $out
