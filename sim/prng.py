"""One integer decides everything: per-run PRNG derived from (property, VERIF_SEED, run index)."""
import hashlib
import random

import numpy as np

DEFAULT_SEED = 20260927


def run_seed(prop, seed, index, salt=''):
    h = hashlib.sha256(('%s:%d:%d:%s' % (prop, seed, index, salt)).encode()).digest()
    return int.from_bytes(h[:8], 'big')


class Rng(object):
    """random.Random plus helpers; a numpy Generator seeded from the same integer."""

    def __init__(self, seed_int):
        self.seed_int = seed_int
        self.r = random.Random(seed_int)
        self._np = None

    @property
    def np(self):
        if self._np is None:
            self._np = np.random.default_rng(self.seed_int)
        return self._np

    # thin wrappers -------------------------------------------------------
    def rand(self):
        return self.r.random()

    def chance(self, p):
        return self.r.random() < p

    def randint(self, a, b):
        return self.r.randint(a, b)

    def choice(self, seq):
        return seq[self.r.randrange(len(seq))]

    def wchoice(self, pairs):
        """pairs: [(item, weight), ...]"""
        tot = sum(w for _, w in pairs)
        x = self.r.random() * tot
        for it, w in pairs:
            x -= w
            if x < 0:
                return it
        return pairs[-1][0]

    def sample(self, seq, k):
        return self.r.sample(list(seq), k)

    def shuffle(self, seq):
        self.r.shuffle(seq)

    def sub(self, tag):
        """independent child PRNG (so that adding draws in one place does not shift others)"""
        h = hashlib.sha256(('%d/%s' % (self.seed_int, tag)).encode()).digest()
        return Rng(int.from_bytes(h[:8], 'big'))
