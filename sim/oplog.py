"""Canonical event log and digest. Never draws from a PRNG, never reads a real clock."""
import hashlib
import json

import numpy as np


def canon(x):
    """JSON-able canonical form of nested python/numpy values (deterministic)."""
    if x is None or isinstance(x, (bool, str)):
        return x
    if isinstance(x, (int, np.integer)):
        return int(x)
    if isinstance(x, (float, np.floating)):
        x = float(x)
        if x != x:
            return 'nan'
        if x in (float('inf'), float('-inf')):
            return 'inf' if x > 0 else '-inf'
        return x.hex()
    if isinstance(x, bytes):
        return 'b:' + hashlib.sha256(x).hexdigest()[:16]
    if isinstance(x, np.ndarray):
        return arr_fp(x)
    if isinstance(x, dict):
        return {str(k): canon(v) for k, v in sorted(x.items(), key=lambda kv: str(kv[0]))}
    if isinstance(x, (list, tuple)):
        return [canon(v) for v in x]
    if isinstance(x, (set, frozenset)):
        return sorted(canon(v) for v in x)
    return 'r:' + type(x).__name__ + ':' + repr(x)[:200]


def arr_fp(a):
    a = np.asarray(a)
    try:
        raw = np.ascontiguousarray(a).view(np.ndarray).tobytes()
    except Exception:
        raw = repr(a.tolist()).encode()
    return 'a:%s:%s:%s' % (a.dtype.str, 'x'.join(map(str, a.shape)),
                           hashlib.sha256(raw).hexdigest()[:16])


class OpLog(object):
    def __init__(self):
        self.events = []

    def add(self, *ev):
        self.events.append(canon(list(ev)))

    def digest(self):
        s = json.dumps(self.events, sort_keys=True, separators=(',', ':'))
        return hashlib.sha256(s.encode()).hexdigest()


def dumps(x):
    return json.dumps(x, sort_keys=True, separators=(',', ':'))
