"""known_findings.json: read-only at run time. Entries are keyed by
(property, clause, site pattern) -- the specific input shape / call site / history
that fails -- never by seed, so a different violation of the same property is
still reported."""
import json
import os
import re

PATH = os.path.join(os.path.dirname(os.path.dirname(os.path.abspath(__file__))),
                    'known_findings.json')


def load():
    if not os.path.exists(PATH):
        return []
    with open(PATH) as f:
        doc = json.load(f)
    return doc.get('findings', [])


def match(findings, prop, v):
    for f in findings:
        if f['property'] != prop or f['clause'] != v['clause']:
            continue
        if re.fullmatch(f['site'], v['site']):
            return f
    return None
