"""Simulated disk: named byte files decided entirely by the simulator. Files are
materialised under the process scratch directory only for the duration of a run,
because np.memmap needs a real file descriptor."""
import os
import shutil

from . import env


class SimDisk(object):
    def __init__(self, tag='d'):
        self.files = {}          # name -> bytes (durable content)
        self.root = os.path.join(env.scratch_root(), '%s_%d' % (tag, os.getpid()))
        self._n = 0
        self.history = []        # storage-level history (op, name, size)

    # -- durable state ------------------------------------------------------
    def write(self, name, data):
        self.files[name] = bytes(data)
        self.history.append(('write', name, len(data)))

    def remove(self, name):
        self.files.pop(name, None)
        self.history.append(('remove', name, 0))
        p = os.path.join(self.root, name)
        if os.path.exists(p):
            os.remove(p)

    def copy_with_crash(self, src_bytes, dst, chunk_sizes, crash_after):
        """Copy in chunks; the copy dies after `crash_after` bytes reached the disk
        (None = completes). The survivor is the prefix that was written."""
        out = bytearray()
        pos = 0
        k = 0
        n = len(src_bytes)
        limit = n if crash_after is None else min(n, crash_after)
        while pos < limit:
            c = chunk_sizes[k % len(chunk_sizes)] if chunk_sizes else n
            k += 1
            c = max(1, c)
            take = min(c, limit - pos)
            out += src_bytes[pos:pos + take]
            pos += take
        self.files[dst] = bytes(out)
        self.history.append(('copy', dst, len(out), 'crash' if limit < n else 'complete'))
        return len(out)

    # -- boot: make the durable state visible to the code under test ----------
    def materialise(self, name):
        os.makedirs(self.root, exist_ok=True)
        p = os.path.join(self.root, name)
        d = os.path.dirname(p)
        if d and not os.path.isdir(d):
            os.makedirs(d)
        with open(p, 'wb') as f:
            f.write(self.files[name])
        return p

    def path(self, name):
        return os.path.join(self.root, name)

    def read_back(self, name):
        with open(os.path.join(self.root, name), 'rb') as f:
            return f.read()

    def listing(self):
        out = []
        for dp, dn, fn in os.walk(self.root):
            for f in fn:
                out.append(os.path.relpath(os.path.join(dp, f), self.root))
        return sorted(out)

    def teardown(self):
        shutil.rmtree(self.root, ignore_errors=True)
