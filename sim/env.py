"""Process environment: pinned thread pools and hash seed, FlowCal imported from the
repository working tree, per-process scratch directory on tmpfs."""
import atexit
import os
import shutil
import sys
import tempfile
import warnings

VERIF = os.path.dirname(os.path.dirname(os.path.abspath(__file__)))
_PINNED = {
    'PYTHONHASHSEED': '0',
    'OMP_NUM_THREADS': '1',
    'OPENBLAS_NUM_THREADS': '1',
    'MKL_NUM_THREADS': '1',
    'NUMEXPR_NUM_THREADS': '1',
    'MPLBACKEND': 'Agg',
    'PYTHONDONTWRITEBYTECODE': '1',
}


def repo_path():
    return os.path.abspath(os.environ.get('VERIF_REPO', '/repo'))


def reexec_pinned():
    """Re-exec once so that the interpreter starts with the pinned environment
    (hash seed must be set before start-up; BLAS pools before numpy import)."""
    need = {k: v for k, v in _PINNED.items()
            if os.environ.get(k) != v and not (k == 'PYTHONHASHSEED' and os.environ.get('VERIF_KEEP_HASHSEED'))}
    if need and not os.environ.get('VERIF_REEXEC'):
        e = dict(os.environ)
        e.update(need)
        e['VERIF_REEXEC'] = '1'
        os.execve(sys.executable, [sys.executable] + sys.argv, e)


_scratch_root = None
_scratch_pid = None
_setup_done = False


def scratch_root():
    """Directory for this process' simulated-disk materialisation (removed at exit)."""
    global _scratch_root, _scratch_pid
    if _scratch_root is None or _scratch_pid != os.getpid() or not os.path.isdir(_scratch_root):
        _scratch_pid = os.getpid()
        base = os.environ.get('VERIF_SCRATCH')
        if not base:
            base = '/dev/shm' if os.path.isdir('/dev/shm') and os.access('/dev/shm', os.W_OK) \
                else tempfile.gettempdir()
        _scratch_root = tempfile.mkdtemp(prefix='fcverif_%d_' % os.getpid(), dir=base)
        root = _scratch_root
        atexit.register(shutil.rmtree, root, True)
        try:
            from multiprocessing import util
            util.Finalize(None, shutil.rmtree, args=(root, True), exitpriority=1)
        except Exception:
            pass
    return _scratch_root


def cleanup_scratch():
    """Children that leave through os._exit() run no exit handlers: they remove their own scratch directory here."""
    if _scratch_root is not None and _scratch_pid == os.getpid():
        shutil.rmtree(_scratch_root, True)


def worker_setup():
    """Idempotent. Makes `import FlowCal` resolve to the repository working tree."""
    global _setup_done
    if _setup_done:
        return
    rp = repo_path()
    if VERIF not in sys.path:
        sys.path.insert(0, VERIF)
    if rp in sys.path:
        sys.path.remove(rp)
    sys.path.insert(0, rp)
    os.environ.setdefault('MPLBACKEND', 'Agg')
    os.environ.setdefault('MPLCONFIGDIR', os.path.join(scratch_root(), 'mpl'))
    os.makedirs(os.environ['MPLCONFIGDIR'], exist_ok=True)
    warnings.simplefilter('ignore')
    import matplotlib
    matplotlib.use('Agg')
    import FlowCal
    got = os.path.dirname(os.path.dirname(os.path.abspath(FlowCal.__file__)))
    if os.path.realpath(got) != os.path.realpath(rp):
        raise RuntimeError('FlowCal imported from %s, expected %s' % (got, rp))
    _setup_done = True
