"""Process-pool driver: seeded runs, budgets, hang detection, minimisation, replay
verification, evidence, VIOLATION / KNOWN-FINDING lines.

Exit codes: 0 held (possibly KNOWN-FINDING lines); 1 VIOLATION (replay verified in a
fresh interpreter); 2 harness error (never reported as a pass)."""
import collections
import faulthandler
import hashlib
import json
import multiprocessing
import os
import subprocess
import sys
import time
import traceback

from . import env, findings, shrink
from .oplog import dumps
from .prng import DEFAULT_SEED, Rng, run_seed

VERIF = os.path.dirname(os.path.dirname(os.path.abspath(__file__)))


def get_machine(prop):
    import machines
    return machines.get(prop)


def _merge(dst, src):
    for k, v in src.items():
        dst[k] += v


def _task(prop, tier, seed, indices, want_samples):
    """Runs a batch of run indices inside a worker. Returns an aggregate."""
    m = get_machine(prop)
    agg = {'digests': [], 'violations': [], 'sigs': set(), 'faults': collections.Counter(),
           'probes': collections.Counter(), 'evals': 0, 'runs': 0, 'samples': [],
           'harness_error': None, 'sim_time': 0.0, 'components': collections.Counter()}
    done_before = []
    for i in indices:
        faulthandler.dump_traceback_later(m.per_run_timeout, exit=True)
        try:
            rng = Rng(run_seed(prop, seed, i))
            case = m.generate(rng, tier, i)
            out = m.execute(case)
        except Exception:
            agg['harness_error'] = 'run %d: %s' % (i, traceback.format_exc())
            faulthandler.cancel_dump_traceback_later()
            return agg
        faulthandler.cancel_dump_traceback_later()
        agg['digests'].append((i, out['digest'][:20]))
        for v in out['violations']:
            agg['violations'].append({'index': i, 'clause': v['clause'], 'site': v['site'],
                                      'detail': v.get('detail', ''), 'case': case,
                                      'prefix_indices': list(done_before)})
        agg['sigs'].update(out.get('sigs', ()))
        _merge(agg['faults'], out.get('faults', {}))
        _merge(agg['probes'], out.get('probes', {}))
        _merge(agg['components'], out.get('components', {}))
        agg['evals'] += out.get('evals', 1)
        agg['sim_time'] += out.get('sim_time', 0.0)
        agg['runs'] += 1
        if i in want_samples:
            agg['samples'].append({'run': i, 'case': m.summarise(case), 'outcome': out.get('summary')})
        done_before.append(i)
    return agg


def _child_main(conn, prop, tier, seed, indices, want_samples):
    try:
        agg = _task(prop, tier, seed, indices, want_samples)
    except BaseException:
        agg = {'harness_error': 'batch %s: %s' % (indices[:1], traceback.format_exc())}
    try:
        conn.send(agg)
    finally:
        conn.close()
    env.cleanup_scratch()
    os._exit(0)


def run_batches(prop, tier, seed, batches, workers, want_samples, budget, t0):
    """One FRESH forked process per batch (the parent has imported everything and executed nothing), so
    that state leaking between runs inside a process is confined to a batch and a violation can be replayed
    exactly by re-executing the runs that preceded it in its batch. Yields aggregates; ('died', None) when a
    child exits without reporting (crash or per-run timeout)."""
    from multiprocessing.connection import wait as mpwait
    ctx = multiprocessing.get_context('fork')
    active = {}
    it = iter(batches)
    exhausted = False
    stop = {'flag': False}
    while True:
        while not exhausted and not stop['flag'] and len(active) < workers:
            if time.time() - t0 > budget:
                exhausted = True
                yield ('budget', None)
                break
            b = next(it, None)
            if b is None:
                exhausted = True
                break
            rc, wc = ctx.Pipe(duplex=False)
            pr = ctx.Process(target=_child_main, args=(wc, prop, tier, seed, b, want_samples))
            pr.start()
            wc.close()
            active[rc] = pr
        if not active:
            break
        for rc in mpwait(list(active), timeout=5.0):
            pr = active.pop(rc)
            try:
                agg = rc.recv()
            except (EOFError, OSError):
                agg = None
            rc.close()
            pr.join(30)
            if agg is None:
                yield ('died', None)
            else:
                cmd = yield ('agg', agg)
                if cmd == 'stop':
                    stop['flag'] = True
        if stop['flag'] and not active:
            break
    for rc, pr in list(active.items()):
        pr.terminate()
        pr.join(5)


def _eval_in_child(prop, prefix, case):
    """Executes prefix cases then `case` in a fresh forked process; returns the violations of `case`."""
    ctx = multiprocessing.get_context('fork')
    rc, wc = ctx.Pipe(duplex=False)

    def body(conn):
        try:
            m = get_machine(prop)
            for pc in prefix:
                try:
                    m.execute(pc)
                except Exception:
                    pass
            out = m.execute(case)
            conn.send([dict(v) for v in out['violations']])
        except BaseException:
            conn.send(None)
        finally:
            conn.close()
        env.cleanup_scratch()
        os._exit(0)
    pr = ctx.Process(target=body, args=(wc,))
    pr.start()
    wc.close()
    try:
        res = rc.recv() if rc.poll(3600) else None
    except (EOFError, OSError):
        res = None
    rc.close()
    pr.join(30)
    if pr.is_alive():
        pr.terminate()
    return res


def _worker_init():
    env.worker_setup()


def write_replay(prop, seed, v, case, digest=None, minimised=None, prefix=None):
    d = os.environ.get('VERIF_REPLAY_DIR') or os.path.join(VERIF, 'replays')
    os.makedirs(d, exist_ok=True)
    key = hashlib.sha256(dumps([v['clause'], v['site'], case]).encode()).hexdigest()[:12]
    path = os.path.join(d, '%s_%s.json' % (prop, key))
    doc = {'property': prop, 'seed': seed, 'run': v.get('index'),
           'violation': {'clause': v['clause'], 'site': v['site'], 'detail': v.get('detail', '')},
           'case': case, 'prefix': prefix or [], 'digest': digest, 'minimised': minimised}
    with open(path, 'w') as f:
        json.dump(doc, f, indent=1, sort_keys=True)
    return path


def replay(prop, path, quiet=False):
    """Executes the recorded case; exit status 1 iff the recorded violation reproduces."""
    env.worker_setup()
    m = get_machine(prop)
    with open(path) as f:
        doc = json.load(f)
    for pc in doc.get('prefix') or []:
        # runs that preceded the failing one in its process (only recorded when the violation needs them)
        try:
            m.execute(pc)
        except Exception:
            pass
    out = m.execute(doc['case'])
    want = (doc['violation']['clause'], doc['violation']['site'])
    got = [v for v in out['violations'] if (v['clause'], v['site']) == want]
    if not quiet:
        print('replay %s: digest=%s violations=%d' % (path, out['digest'][:16], len(out['violations'])))
        for v in out['violations']:
            print('  %s @ %s: %s' % (v['clause'], v['site'], str(v.get('detail', ''))[:400]))
    if got:
        print('VIOLATION property=%s replay=%s' % (prop, path))
        return 1
    if out['violations']:
        print('replay: recorded violation %s @ %s did not reproduce (others did)' % want)
        print('VIOLATION property=%s replay=%s' % (prop, path))
        return 1
    print('replay: no violation (recorded: %s @ %s)' % want)
    return 0


def run_check(prop, tier, seed=None):
    t0 = time.time()
    if seed is None:
        seed = int(os.environ.get('VERIF_SEED', DEFAULT_SEED))
    m = get_machine(prop)
    plan = m.plan(tier)
    n_runs = int(os.environ.get('VERIF_RUNS', plan['runs']))
    budget = float(os.environ.get('VERIF_BUDGET_S', plan['budget_s']))
    workers = int(os.environ.get('VERIF_WORKERS', min(16, os.cpu_count() or 1)))
    batch = max(1, int(plan.get('batch', 1)))
    want_samples = set(range(3))
    print('check %s tier=%s seed=%d runs<=%d budget=%ds workers=%d repo=%s' % (
        prop, tier, seed, n_runs, budget, workers, env.repo_path()))
    sys.stdout.flush()

    batches = [list(range(s, min(s + batch, n_runs))) for s in range(0, n_runs, batch)]
    tot = {'digests': [], 'violations': [], 'sigs': set(), 'faults': collections.Counter(),
           'probes': collections.Counter(), 'evals': 0, 'runs': 0, 'samples': [],
           'sim_time': 0.0, 'components': collections.Counter()}
    harness_error = None
    stopped_early = False
    env.worker_setup()          # import FlowCal and everything else once; children are forked from this clean state
    get_machine(prop)
    gen = run_batches(prop, tier, seed, batches, workers, want_samples, budget, t0)
    try:
        msg = next(gen)
        while True:
            kind, agg = msg
            cmd = None
            if kind == 'budget':
                stopped_early = True
            elif kind == 'died':
                harness_error = 'worker died or exceeded the per-run timeout (see traceback dump above)'
                cmd = 'stop'
            else:
                if agg.get('harness_error'):
                    harness_error = agg['harness_error']
                    cmd = 'stop'
                else:
                    tot['digests'] += agg['digests']
                    tot['violations'] += agg['violations']
                    tot['sigs'] |= agg['sigs']
                    for k in ('faults', 'probes', 'components'):
                        _merge(tot[k], agg[k])
                    tot['evals'] += agg['evals']
                    tot['runs'] += agg['runs']
                    tot['sim_time'] += agg['sim_time']
                    tot['samples'] += agg['samples']
                    if len({(v['clause'], v['site']) for v in tot['violations']}) >= 12:
                        stopped_early = True
                        cmd = 'stop'
            msg = gen.send(cmd)
    except StopIteration:
        pass
    if harness_error:
        print('HARNESS-ERROR property=%s %s' % (prop, harness_error))
        return 2

    tot['digests'].sort()
    batch_digest = hashlib.sha256(dumps(tot['digests']).encode()).hexdigest()

    # ---- violations: known findings vs new ---------------------------------
    known = findings.load()
    by_key = collections.OrderedDict()
    for v in sorted(tot['violations'], key=lambda v: (v['index'], v['clause'], v['site'])):
        by_key.setdefault((v['clause'], v['site']), v)
    known_hit = collections.OrderedDict()
    fresh = []
    for key, v in by_key.items():
        f = findings.match(known, prop, v)
        if f is not None:
            known_hit.setdefault(f['what'], 0)
            known_hit[f['what']] += 1
        else:
            fresh.append(v)
    for what in known_hit:
        print('KNOWN-FINDING: property=%s %s' % (prop, what))
    status = 0
    reported = []
    for v in fresh[:int(os.environ.get('VERIF_MAX_REPORT', 3))]:
        target = (v['clause'], v['site'])
        ev = lambda pre, c: _eval_in_child(prop, pre, c)
        prefix = []
        shrink_s = float(os.environ.get('VERIF_SHRINK_S', plan.get('shrink_s', 90.0)))
        mcase, n_exec, mv = shrink.minimise(m, v['case'], target, wall_s=shrink_s, evaluate=ev)
        if mv is None and v.get('prefix_indices'):
            # the violation depends on what ran before it in its process: replay needs (part of) that history
            prefix = [m.generate(Rng(run_seed(prop, seed, j)), tier, j) for j in v['prefix_indices']]
            prefix, mcase, n2, mv = shrink.minimise_with_prefix(m, prefix, v['case'], target,
                                                               wall_s=shrink_s, evaluate=ev)
            n_exec += n2
        if mv is None:
            mcase, mv = v['case'], v
            path = write_replay(prop, seed, v, mcase, minimised=False, prefix=prefix)
        else:
            vv = dict(mv)
            vv['index'] = v['index']
            path = write_replay(prop, seed, vv, mcase, minimised=True, prefix=prefix)
        rc = subprocess.run([sys.executable, os.path.join(VERIF, 'check'), prop, '--replay', path,
                             '--quiet'], capture_output=True, text=True, timeout=1800)
        if rc.returncode == 1:
            print('  violation %s @ %s: %s' % (v['clause'], v['site'], str(mv.get('detail', ''))[:600]))
            print('  (run %d, minimised with %d executions%s)' % (
                v['index'], n_exec, ', needs %d preceding run(s) in the same process' % len(prefix) if prefix else ''))
            print('VIOLATION property=%s replay=%s' % (prop, path))
            reported.append(target)
            status = 1
        else:
            print('HARNESS-ERROR property=%s violation %s @ %s (run %d) did not reproduce on replay '
                  '(rc=%s)\n%s\n%s' % (prop, v['clause'], v['site'], v['index'], rc.returncode,
                                       rc.stdout[-2000:], rc.stderr[-2000:]))
            status = max(status, 2)
    if len(fresh) > 3:
        print('  (%d further distinct violation sites not minimised: %s)' % (
            len(fresh) - 3, ', '.join('%s@%s' % (v['clause'], v['site']) for v in fresh[3:10])))

    wall = time.time() - t0
    # ---- evidence ----------------------------------------------------------
    tot['samples'].sort(key=lambda s: s['run'])
    ev = {
        'property_id': prop, 'tier': tier, 'seed': seed, 'level': m.level,
        'coverage': {
            'evaluations': int(tot['evals']),
            'distinct_nontrivial': len(tot['sigs']),
            'rule': m.rule,
            'samples': tot['samples'][:3],
            'simulated_runs': tot['runs'],
            'runs_planned': n_runs,
            'stopped_early': stopped_early,
            'runs_per_hour': int(tot['runs'] / max(wall, 1e-6) * 3600),
            'simulated_time_s': round(tot['sim_time'], 3),
            'faults_fired': dict(sorted(tot['faults'].items())),
            'probes': dict(sorted(tot['probes'].items())),
            'components': dict(sorted(tot['components'].items())),
            'real_components': m.real_components,
            'stubbed_components': m.stubbed_components,
            'fault_kinds_not_modelled': m.not_modelled,
            'batch_digest': batch_digest,
            'workers': workers,
            'known_findings_matched': list(known_hit.keys()),
            'violation_sites': ['%s@%s' % k for k in by_key.keys()][:20],
            'exhaustive': bool(plan.get('exhaustive', False)),
        },
        'assumptions': m.assumptions,
        'wall_s': round(wall, 2),
        'violations': len(fresh),
    }
    if hasattr(m, 'finalise_evidence'):
        m.finalise_evidence(ev['coverage'])
    evdir = os.environ.get('VERIF_EVIDENCE_DIR') or os.path.join(VERIF, 'evidence')
    os.makedirs(evdir, exist_ok=True)
    with open(os.path.join(evdir, '%s.json' % prop), 'w') as f:
        json.dump(ev, f, indent=1, sort_keys=True)
    print('%s: runs=%d evals=%d distinct=%d faults=%d violations(new)=%d known=%d wall=%.1fs digest=%s' % (
        prop, tot['runs'], tot['evals'], len(tot['sigs']), sum(tot['faults'].values()),
        len(fresh), len(known_hit), wall, batch_digest[:16]))
    if status == 0 and tot['runs'] == 0:
        print('HARNESS-ERROR property=%s no run completed' % prop)
        return 2
    return status
