"""Greedy minimisation of a failing case: machine-proposed simpler cases are kept
only when the *same clause and site* still fail."""
import copy
import time


def list_reductions(lst, min_len=0):
    """Candidate shorter lists: halves, then chunks, then single elements (ddmin style)."""
    n = len(lst)
    if n <= min_len:
        return
    seen = set()
    chunk = n // 2
    while chunk >= 1:
        for start in range(0, n, chunk):
            cand = lst[:start] + lst[start + chunk:]
            if len(cand) < min_len:
                continue
            key = (start, chunk)
            if key in seen:
                continue
            seen.add(key)
            yield cand
        chunk //= 2


def vkey(v):
    return (v['clause'], v['site'])


def minimise(machine, case, target, wall_s=90.0, max_exec=400):
    """
    target: (clause, site). Returns (min_case, n_exec, violation_dict).
    """
    t0 = time.time()
    n_exec = 0

    def fails(c):
        nonlocal n_exec
        n_exec += 1
        try:
            out = machine.execute(copy.deepcopy(c))
        except Exception:
            return None
        for v in out['violations']:
            if vkey(v) == target:
                return v
        return None

    best = copy.deepcopy(case)
    best_v = fails(best)
    if best_v is None:
        return best, n_exec, None
    progress = True
    while progress and time.time() - t0 < wall_s and n_exec < max_exec:
        progress = False
        for cand in machine.shrink_candidates(copy.deepcopy(best)):
            if time.time() - t0 > wall_s or n_exec >= max_exec:
                break
            v = fails(cand)
            if v is not None:
                best, best_v = cand, v
                progress = True
                break
    return best, n_exec, best_v
