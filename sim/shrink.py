"""Greedy minimisation of a failing case: machine-proposed simpler cases are kept
only when the *same clause and site* still fail."""
import copy
import time


def list_reductions(lst, min_len=0):
    """Candidate shorter lists: halves, then chunks, then single elements (ddmin style)."""
    n = len(lst)
    if n <= min_len:
        return
    seen = set()
    chunk = n // 2
    while chunk >= 1:
        for start in range(0, n, chunk):
            cand = lst[:start] + lst[start + chunk:]
            if len(cand) < min_len:
                continue
            key = (start, chunk)
            if key in seen:
                continue
            seen.add(key)
            yield cand
        chunk //= 2


def vkey(v):
    return (v['clause'], v['site'])


def minimise(machine, case, target, wall_s=90.0, max_exec=400, evaluate=None, prefix=None):
    """
    target: (clause, site). Returns (min_case, n_exec, violation_dict).
    evaluate(prefix, case) -> list of violation dicts (or None on failure), executed in a FRESH process so that
    no state is carried from one candidate to the next; default: in this process.
    """
    t0 = time.time()
    n_exec = 0
    prefix = prefix or []

    def fails(c):
        nonlocal n_exec
        n_exec += 1
        if evaluate is not None:
            vs = evaluate(prefix, copy.deepcopy(c))
            if vs is None:
                return None
        else:
            try:
                vs = machine.execute(copy.deepcopy(c))['violations']
            except Exception:
                return None
        for v in vs:
            if vkey(v) == target:
                return v
        return None

    best = copy.deepcopy(case)
    best_v = fails(best)
    if best_v is None:
        return best, n_exec, None
    progress = True
    while progress and time.time() - t0 < wall_s and n_exec < max_exec:
        progress = False
        for cand in machine.shrink_candidates(copy.deepcopy(best)):
            if time.time() - t0 > wall_s or n_exec >= max_exec:
                break
            v = fails(cand)
            if v is not None:
                best, best_v = cand, v
                progress = True
                break
    return best, n_exec, best_v


def minimise_with_prefix(machine, prefix, case, target, wall_s=90.0, evaluate=None):
    """The violation did not reproduce alone: find a minimal list of preceding runs that makes it reproduce,
    then minimise the case itself with that history. Returns (prefix, case, n_exec, violation)."""
    t0 = time.time()
    n_exec = 0

    def fails(pre):
        nonlocal n_exec
        n_exec += 1
        vs = evaluate(pre, copy.deepcopy(case))
        for v in vs or []:
            if vkey(v) == target:
                return v
        return None

    v = fails(prefix)
    if v is None:
        return prefix, case, n_exec, None
    best = list(prefix)
    progress = True
    while progress and time.time() - t0 < wall_s and len(best) > 1:
        progress = False
        for cand in list_reductions(best, 1):
            if time.time() - t0 > wall_s:
                break
            v2 = fails(cand)
            if v2 is not None:
                best, v = cand, v2
                progress = True
                break
    mcase, n2, mv = minimise(machine, case, target, wall_s=max(10.0, wall_s - (time.time() - t0)),
                             evaluate=evaluate, prefix=best)
    return best, (mcase if mv is not None else case), n_exec + n2, (mv or v)
