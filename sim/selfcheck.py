"""setup_cmd: nothing to build (pure Python, everything from files on disk). Verifies that
FlowCal imports from the repository working tree, that every seam the simulator replaces
still exists (a refactor that removes a seam must fail loudly, not silently un-simulate),
and that a small sample of runs per machine is deterministic (same digest twice, under a
different PYTHONHASHSEED, in fresh interpreters)."""
import os
import subprocess
import sys

HERE = os.path.dirname(os.path.dirname(os.path.abspath(__file__)))
sys.path.insert(0, HERE)

from sim import env  # noqa: E402


def seam_check():
    env.worker_setup()
    import inspect
    import FlowCal
    problems = []
    src = inspect.getsource(FlowCal.io.FCSFile.__init__)
    if 'open(' not in src:
        problems.append('FlowCal.io.FCSFile.__init__ no longer calls open(): io seam gone')
    import FlowCal.excel_ui as X
    if 'open(' not in inspect.getsource(X.read_table):
        problems.append('excel_ui.read_table no longer calls open(): workbook read seam gone')
    if not hasattr(X, 'time') or 'time.strftime' not in inspect.getsource(X.generate_about_table):
        problems.append('excel_ui.generate_about_table no longer reads time.strftime: clock seam gone')
    if 'pd.ExcelWriter' not in inspect.getsource(X.write_workbook):
        problems.append('excel_ui.write_workbook no longer uses pd.ExcelWriter: workbook write seam gone')
    import FlowCal.mef as M
    if 'np.random' not in inspect.getsource(M.clustering_gmm):
        problems.append('mef.clustering_gmm no longer draws from np.random: RNG seam moved')
    return problems


def digest_of(prop, indices, hashseed):
    code = ("import sys,os;sys.path.insert(0,%r);from sim import env;env.worker_setup();"
            "import machines;from sim.prng import Rng,run_seed;m=machines.get(%r);"
            "print(' '.join(m.execute(m.generate(Rng(run_seed(%r,777,i)),'quick',i))['digest'][:16] for i in %r))"
            % (HERE, prop, prop, list(indices)))
    e = dict(os.environ)
    e.update({'PYTHONHASHSEED': str(hashseed), 'OMP_NUM_THREADS': '1', 'OPENBLAS_NUM_THREADS': '1',
              'MKL_NUM_THREADS': '1', 'MPLBACKEND': 'Agg', 'PYTHONDONTWRITEBYTECODE': '1'})
    r = subprocess.run([sys.executable, '-c', code], capture_output=True, text=True, env=e, timeout=1200)
    if r.returncode != 0:
        return 'ERROR rc=%d %s' % (r.returncode, r.stderr[-800:])
    return r.stdout.strip()


def determinism(sample):
    import machines
    bad = []
    import concurrent.futures as cf
    jobs = {}
    with cf.ThreadPoolExecutor(max_workers=16) as ex:
        for prop in machines.claimed():
            try:
                m = machines.get(prop)
            except Exception:
                continue            # machine not built yet
            n = sample.get(prop, 3)
            for hs in (0, 1, 4242):
                jobs[(prop, hs)] = ex.submit(digest_of, prop, range(n), hs)
        res = {k: f.result() for k, f in jobs.items()}
    for prop in sorted({p for p, _ in res}):
        ds = {hs: res[(prop, hs)] for (p, hs) in res if p == prop}
        vals = set(ds.values())
        if len(vals) != 1 or any(v.startswith('ERROR') for v in vals):
            bad.append('%s: digests differ across fresh interpreters / hash seeds: %s' % (prop, ds))
        else:
            print('determinism %s: %d runs x 3 interpreters (PYTHONHASHSEED 0,1,4242) identical' % (
                prop, len(next(iter(vals)).split())))
    return bad


def main():
    env.reexec_pinned()
    problems = seam_check()
    sample = {'C01': 40, 'C16': 6, 'C14': 20, 'C17': 40, 'C20': 30, 'C04': 30, 'C13': 60,
              'C11': 1, 'C10': 1, 'C15': 1}
    if os.environ.get('VERIF_SELFCHECK_FAST'):
        sample = {k: min(v, 2) for k, v in sample.items()}
    problems += determinism(sample)
    if problems:
        for p in problems:
            print('SELFCHECK-FAIL: ' + p)
        return 1
    print('selfcheck ok: FlowCal from %s, seams present, determinism sample identical' % env.repo_path())
    return 0


if __name__ == '__main__':
    sys.exit(main())
