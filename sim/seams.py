"""Seams: module attributes of FlowCal replaced from outside (no repo hook needed).

  FlowCal.io.open         recording / fault-capable file wrapper (delegates fileno()
                          so np.memmap still works)
  FlowCal.excel_ui.open   same, for workbook reads
  FlowCal.excel_ui.time   simulated wall clock
  numpy global RNG        re-seeded by the simulator at operation boundaries
"""
import builtins
import contextlib
import errno
import os

import numpy as np


class RecFile(object):
    """File wrapper that records every I/O call into `events`."""

    def __init__(self, f, name, events):
        self._f = f
        self._name = name
        self._ev = events
        self.closed_by_code = False

    def read(self, n=-1):
        b = self._f.read(n)
        self._ev.append(('read', self._name, n, len(b)))
        return b

    def seek(self, off, whence=0):
        self._ev.append(('seek', self._name, off, whence))
        return self._f.seek(off, whence)

    def tell(self):
        return self._f.tell()

    def fileno(self):
        return self._f.fileno()

    def close(self):
        self._ev.append(('close', self._name))
        self.closed_by_code = True
        return self._f.close()

    def __enter__(self):
        return self

    def __exit__(self, *a):
        self.close()
        return False

    @property
    def closed(self):
        return self._f.closed

    @property
    def mode(self):
        return self._f.mode

    @property
    def name(self):
        return self._f.name

    def __getattr__(self, k):
        return getattr(self._f, k)


class OpenSeam(object):
    """Callable installed as `<module>.open`.

    faults: {'enoent': set(basenames), 'eacces': set(basenames)} raised at open time.
    """

    def __init__(self, events, root=None, faults=None):
        self.events = events
        self.root = root
        self.faults = faults or {}
        self.handles = []
        self.fired = []

    def _rel(self, path):
        p = str(path)
        if self.root and p.startswith(self.root):
            return os.path.relpath(p, self.root)
        return os.path.basename(p)

    def __call__(self, path, mode='r', *a, **kw):
        rel = self._rel(path)
        if os.path.basename(str(path)) in self.faults.get('enoent', ()):
            self.events.append(('open', rel, mode, 'ENOENT(injected)'))
            self.fired.append(('enoent', rel))
            raise FileNotFoundError(errno.ENOENT, 'No such file or directory (injected)', str(path))
        if os.path.basename(str(path)) in self.faults.get('eacces', ()):
            self.events.append(('open', rel, mode, 'EACCES(injected)'))
            self.fired.append(('eacces', rel))
            raise PermissionError(errno.EACCES, 'Permission denied (injected)', str(path))
        try:
            f = builtins.open(path, mode, *a, **kw)
        except OSError as e:
            self.events.append(('open', rel, mode, type(e).__name__))
            raise
        self.events.append(('open', rel, mode, 'ok'))
        h = RecFile(f, rel, self.events)
        self.handles.append(h)
        return h

    def close_leaked(self):
        n = 0
        for h in self.handles:
            if not h._f.closed:
                n += 1
                h._f.close()
        return n


@contextlib.contextmanager
def patched(obj, name, value):
    missing = object()
    old = obj.__dict__.get(name, missing) if hasattr(obj, '__dict__') else getattr(obj, name, missing)
    setattr(obj, name, value)
    try:
        yield value
    finally:
        if old is missing:
            try:
                delattr(obj, name)
            except AttributeError:
                pass
        else:
            setattr(obj, name, old)


def seed_global_rng(seed_int):
    """FlowCal (mef.clustering_gmm, scikit-learn with random_state=None) consumes the
    global NumPy RNG; the simulator owns it."""
    np.random.seed(seed_int % (2 ** 32))


class SimClock(object):
    """Replacement for the `time` module as seen by FlowCal.excel_ui."""

    def __init__(self, epoch):
        import time as _t
        self._t = _t
        self.now = float(epoch)
        self.epoch = float(epoch)
        self.reads = 0
        self.tick = 1.0
        self.returned = []

    def advance(self, dt):
        self.now += dt

    def time(self):
        self.reads += 1
        v = self.now
        self.now += self.tick
        return v

    def localtime(self, secs=None):
        return self._t.gmtime(self.now if secs is None else secs)

    gmtime = localtime

    def strftime(self, fmt, t=None):
        self.reads += 1
        v = self._t.strftime(fmt, self._t.gmtime(self.now) if t is None else t)
        self.returned.append((fmt, v))
        self.now += self.tick                      # simulated time passes between two reads of the clock
        return v

    def sleep(self, dt):
        self.now += dt

    def __getattr__(self, k):
        return getattr(self._t, k)
